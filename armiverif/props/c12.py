"""C12 - axial expansion: conservation exponent of the density change (role typing), stacking of
blocks and components inside axiallyExpandAssembly, order of the height check, mesh built from
the tops, linkage detection consistency, reference temperature bookkeeping.
Structural necessary conditions only (DESIGN.md section 3, C12)."""
from __future__ import annotations

import ast

from ..astutil import call_attr, iter_calls, iter_stores, propagate, single_assign_env, walk_local, get_arg
from ..flow import Flow, always_exits, path_conditions
from ..index import AnalysisError, AnchorMissing, dotted, norm
from ..units import LIT, ONE, TOP, ZERO, Law, U, analyze, known

AX = "armi.reactor.converters.axialExpansionChanger."
CH = AX + "axialExpansionChanger.AxialExpansionChanger"
ED = AX + "expansionData.ExpansionData"
GC = U("gc")
CM = U("cm")


def r1_exponent(idx, r):
    f = idx.method(CH, "axiallyExpandAssembly")
    law = Law(methods={"getExpansionFactor": GC, "getHeight": CM}, attr_suffix={".ztop": CM, ".zbottom": CM, ".p.ztop": CM, ".p.zbottom": CM, ".p.height": CM})
    ev = analyze(f.node, law, sink_names={"changeNDensByFactor"})
    real = [c for c in ev.conflicts if c[1].without("gc") != c[2].without("gc")]  # the growth fraction is a dimensionless role
    if real:
        node, a, b, what = real[0]
        r.violate("axiallyExpandAssembly:heights-homogeneous", f, f"`{norm(node)[:80]}` combines {a} with {b}", node=node)
    else:
        r.ok("axiallyExpandAssembly:heights-homogeneous", f)
    sinks = [(c, a) for c, a, k in ev.sinks]
    if len(sinks) != 1:
        raise AnalysisError("axiallyExpandAssembly: exactly one changeNDensByFactor expected")
    got = ev.flat(sinks[0][1][0])
    r.require(known(got) and got == GC ** -1, "axiallyExpandAssembly:density-factor-is-1/growth", f, node=sinks[0][0], msg=f"component mass is conserved only if densities scale by growth^-1 when the height scales by growth^+1; factor typed as {got}")
    h = [s for s in iter_stores(f.node) if s.chain == "c.height"]
    uh = ev.flat(ev.e(h[0].value)) if h else TOP
    r.require(len(h) == 1 and known(uh) and uh == GC * CM, "axiallyExpandAssembly:component-height-is-growth-x-block-height", f, node=h[0].stmt if h else None, msg=f"component height = growth fraction x block height; typed as {uh}")
    same = sinks[0][0].func.value
    r.require(norm(same) == norm(h[0].node.value) if h else False, "axiallyExpandAssembly:same-component", f, msg="height and density change apply to the same component")
    g = idx.method(CH, "applyColdHeightMassIncrease")
    c = next((x for x in iter_calls(g.node) if call_attr(x) == "changeNDensByFactor"), None)
    env = single_assign_env(g.node)
    arg = norm(propagate(c.args[0], env)) if c is not None else ""
    r.require(arg == "1.0 + c.material.linearExpansionFactor(c.temperatureInC, c.inputTemperatureInC)", "applyColdHeightMassIncrease:factor", g, node=c,
              msg=f"cold-height mass increase multiplies densities by 1 + linear expansion from INPUT to CURRENT temperature (Tc first, T0 second): `{arg}`")
    lf = idx.method("armi.materials.material.Material", "linearExpansionFactor")
    r.require(lf.params()[1:3] == ["Tc", "T0"], "linearExpansionFactor:signature", lf, msg=f"positional callers rely on (Tc, T0): {lf.params()}")


def r2_stacking(idx, r):
    f = idx.method(CH, "axiallyExpandAssembly")
    loop = next((n for n in f.node.body if isinstance(n, ast.For) and "self.linked.a" in norm(n.iter)), None)
    if loop is None or not (isinstance(loop.iter, ast.Call) and dotted(loop.iter.func) == "enumerate"):
        raise AnalysisError("axiallyExpandAssembly: block loop not found")
    ib, b = (norm(e) for e in loop.target.elts)
    mod = ast.Module(body=loop.body, type_ignores=[])
    zb = [s for s in iter_stores(mod) if s.chain == f"{b}.p.zbottom"]
    okz = len(zb) == 1 and norm(zb[0].value) == f"self.linked.linkedBlocks[{b}].lower.p.ztop" and [(norm(t), p) for t, p in path_conditions(mod, zb[0].stmt)] == [(f"{ib} > 0", True)]
    r.require(okz, "block-bottom-is-lower-block-top", f, node=zb[0].stmt if zb else loop, msg="for every block above the first, zbottom is the top of the linked lower block")
    dm = next((s for s in iter_stores(mod) if s.attr == "isDummyBlock"), None)
    env0 = single_assign_env(f.node)
    want_dummy = f"{ib} == self.linked.a.countBlocksWithFlags() - 1"
    if dm is not None:
        DUMMY, okd = "isDummyBlock", norm(propagate(dm.value, env0)) == want_dummy
    else:
        # canonical form (canon C13): the single-use flag is inlined into the test it names
        tst = next((x.test for x in walk_local(mod) if isinstance(x, ast.If) and norm(propagate(x.test, env0)) in (want_dummy, f"not {want_dummy}", f"not ({want_dummy})")), None)
        core = tst.operand if isinstance(tst, ast.UnaryOp) else tst
        DUMMY, okd = (norm(core) if core is not None else "isDummyBlock"), core is not None
    r.require(okd, "dummy-is-last-block", f, msg="the dummy block is the topmost block")
    zt = [s for s in iter_stores(mod) if s.chain == f"{b}.p.ztop"]
    okt = len(zt) == 1 and norm(zt[0].value) == "c.ztop"
    if okt:
        conds = [(norm(t), p) for t, p in path_conditions(mod, zt[0].stmt)]
        okt = (DUMMY, False) in conds and ("self.expansionData.isTargetComponent(c)", True) in conds and len(conds) == 2
    r.require(okt, "block-top-from-target-component-only", f, node=zt[0].stmt if zt else loop, msg="a block's top moves only with its target component, and never for the top dummy block (assembly height fixed)")
    hs = [s for s in iter_stores(mod) if s.chain == f"{b}.p.height"]
    r.require(len(hs) == 2 and all(norm(s.value) == f"{b}.p.ztop - {b}.p.zbottom" for s in hs), "height-is-top-minus-bottom", f, msg="block height is always ztop - zbottom (dummy and non-dummy)")
    for s in hs:
        conds = [(norm(t), p) for t, p in path_conditions(mod, s.stmt)]
        if (DUMMY, False) in conds:
            r.require(zt and s.stmt.lineno > zt[0].stmt.lineno, "height-after-top", f, node=s.stmt, msg="the height is recomputed after the top moved")
    # component stacking
    cz = {}
    for s in iter_stores(mod):
        if s.chain == "c.zbottom":
            cz[norm(s.value)] = [(norm(t), p) for t, p in path_conditions(mod, s.stmt) if DUMMY not in norm(t)]
    want = {"0.0": [(f"{ib} == 0", True)],
            "self.linked.linkedComponents[c].lower.ztop": [(f"{ib} == 0", False), ("self.linked.linkedComponents[c].lower is not None", True)],
            f"self.linked.linkedBlocks[{b}].lower.p.ztop": [(f"{ib} == 0", False), ("self.linked.linkedComponents[c].lower is not None", False)]}
    r.require(cz == want, "component-bottom-on-linked-top", f, msg=f"a component starts at 0 (first block), on top of its linked lower component, else on top of the lower block: {cz}")
    ct = [s for s in iter_stores(mod) if s.chain == "c.ztop"]
    r.require(len(ct) == 1 and norm(ct[0].value) == "c.zbottom + c.height" and all(ct[0].stmt.lineno > s.stmt.lineno for s in iter_stores(mod) if s.chain in ("c.zbottom", "c.height")), "component-top", f,
              msg="component top = its bottom + its new height, computed after both")
    # height check after the new height, mesh from tops, once per block
    chk = next((st for st in loop.body if isinstance(st, ast.Expr) and isinstance(st.value, ast.Call) and dotted(st.value.func) == "_checkBlockHeight"), None)
    iff = next((st for st in loop.body if isinstance(st, ast.If) and DUMMY in norm(st.test)), None)
    r.require(chk is not None and iff is not None and loop.body.index(chk) > loop.body.index(iff) and norm(chk.value.args[0]) == b, "height-check-after-update", f, node=chk,
              msg="the block height check must run on the NEW height (after zbottom/ztop/height were updated), unconditionally, or a negative height is accepted silently")
    ap = next((st for st in loop.body if isinstance(st, ast.Expr) and isinstance(st.value, ast.Call) and norm(st.value.func) == "mesh.append"), None)
    r.require(ap is not None and norm(ap.value.args[0]) == f"{b}.p.ztop" and chk is not None and loop.body.index(ap) > loop.body.index(chk), "mesh-from-tops", f, node=ap, msg="the mesh receives each block's (checked) top once per block")
    r.require(any(norm(s) == "mesh = [0.0]" for s in f.node.body), "mesh-starts-at-zero", f, msg="the mesh starts at elevation 0")
    bd = [s for s in iter_stores(f.node) if s.kind == "subscript" and s.chain == "bounds" and norm(s.node.slice) == "2"]
    fin = [s for s in iter_stores(f.node) if s.chain == "self.linked.a.spatialGrid._bounds"]
    r.require(len(bd) == 1 and norm(bd[0].value) == "array(mesh)" and len(fin) == 1 and norm(fin[0].value) == "tuple(bounds)", "grid-bounds-equal-mesh", f, msg="the axial grid bounds are replaced by the new elevations")
    cb = idx.func(AX + "axialExpansionChanger._checkBlockHeight")
    hp = cb.params()[0]
    # some raise stands under "height < 0" / "height <= 0", however the test is written (if / guard clause, negated, mirrored)
    INV = {ast.Lt: ast.GtE, ast.LtE: ast.Gt, ast.Gt: ast.LtE, ast.GtE: ast.Lt}
    MIR = {ast.Lt: ast.Gt, ast.LtE: ast.GtE, ast.Gt: ast.Lt, ast.GtE: ast.LtE}
    found = None  # the comparison operator, oriented as `height OP 0`, under which the raise stands
    for n in walk_local(cb.node):
        if not isinstance(n, ast.Raise):
            continue
        for t, pol in path_conditions(cb.node, n):
            while isinstance(t, ast.UnaryOp) and isinstance(t.op, ast.Not):
                t, pol = t.operand, not pol
            if not (isinstance(t, ast.Compare) and len(t.ops) == 1 and type(t.ops[0]) in INV):
                continue
            op, l_, r_ = type(t.ops[0]), norm(t.left), norm(t.comparators[0])
            if l_ in ("0.0", "0") and r_ == f"{hp}.getHeight()":
                op, l_, r_ = MIR[op], r_, l_
            if l_ == f"{hp}.getHeight()" and r_ in ("0.0", "0"):
                found = op if pol else INV[op]
    r.require(found in (ast.Lt, ast.LtE), "negative-height-raises", cb, msg="a negative block height must raise")
    if found in (ast.Lt, ast.LtE):
        r.require(found is ast.LtE, "zero-height-raises", cb, msg="the property demands positive heights: a block squeezed to exactly zero height must be refused too (`<= 0.0`)")
    sa = idx.method(CH, "setAssembly")
    r.require(any(dotted(c.func) == "self._isTopDummyBlockPresent" for c in iter_calls(sa.node)), "dummy-block-checked", sa, msg="setAssembly must check for the top dummy block")
    for meth, seq in (("performThermalAxialExpansion", ["self.setAssembly", "self.expansionData.updateComponentTempsBy1DTempField", "self.expansionData.computeThermalExpansionFactors", "self.axiallyExpandAssembly"]),
                      ("performPrescribedAxialExpansion", ["self.setAssembly", "self.expansionData.setExpansionFactors", "self.axiallyExpandAssembly"])):
        g = idx.method(CH, meth)
        got = [dotted(c.func) for c in iter_calls(g.node) if (dotted(c.func) or "").startswith("self.")]
        r.require(got == seq, f"{meth}:sequence", g, msg=f"{got}")


def r3_linkage_and_temperature(idx, r):
    f = idx.func(AX + "assemblyAxialLinkage.areAxiallyLinked")
    dia = [s for s in iter_stores(f.node) if s.attr in ("idA", "odA", "idB", "odB") and isinstance(s.value, ast.Call)]
    if len(dia) != 4:
        raise AnalysisError("areAxiallyLinked: four diameters expected")
    for s in dia:
        kw = {k.arg: norm(k.value) for k in s.value.keywords}
        want_m = "getCircleInnerDiameter" if s.attr.startswith("id") else "getBoundingCircleOuterDiameter"
        want_c = "componentA" if s.attr.endswith("A") else "componentB"
        r.require(kw == {"cold": "True"} and call_attr(s.value) == want_m and norm(s.value.func.value) == want_c, f"areAxiallyLinked:{s.attr}", f, node=s.stmt,
                  msg=f"`{norm(s.stmt)}`: all four diameters must be COLD dimensions of the right component (mixing a hot with a cold diameter unlinks thin-walled components)")
    env = single_assign_env(f.node)
    ret = next((n for n in walk_local(f.node) if isinstance(n, ast.Return) and isinstance(n.value, ast.Compare)), None)
    r.require(ret is not None and norm(propagate(ret.value, {k: v for k, v in env.items() if k in ("biggerID", "smallerOD")})) == "max(idA, idB) < min(odA, odB)", "areAxiallyLinked:overlap-test", f, node=ret,
              msg="linked iff the larger inner diameter is below the smaller outer diameter")
    fc = idx.method(AX + "assemblyAxialLinkage.AssemblyAxialLinkage", "_findComponentLinkedTo")
    r.require(any(isinstance(n, ast.Raise) for n in walk_local(fc.node)), "multiple-links-raise", fc, msg="two candidates linked to one component must raise")
    gl = idx.method(AX + "assemblyAxialLinkage.AssemblyAxialLinkage", "_getLinkedBlocks")
    env = single_assign_env(gl.node)
    r.require(norm(env.get("lower", ast.Constant(0))) == "itertools.chain((None,), itertools.islice(blocks, 0, nBlocks - 1))" and norm(env.get("upper", ast.Constant(0))) == "itertools.chain(itertools.islice(blocks, 1, None), (None,))",
              "linked-blocks-are-neighbours", gl, msg="lower/upper links are the previous/next block")
    ut = idx.method(ED, "updateComponentTemp")

    def ev(n):
        if isinstance(n, ast.Assign) and norm(n.targets[0]) == "self.componentReferenceTemperature[c]" and norm(n.value) == "c.temperatureInC":
            return ["ref"]
        if isinstance(n, ast.Call) and norm(n.func) == "c.setTemperature":
            return ["set"]
        return []
    fl = Flow(ut.node, ev).run()
    okr = bool(fl.normal_exits()) and all(e.state.get("ref") == (1, 1) and e.state.get("set") == (1, 1) for e in fl.normal_exits())
    st = next((c for c in iter_calls(ut.node) if ev(c) == ["set"]), None)
    okr = okr and st is not None and (fl.state_before(st) or {}).get("ref", (0, 0))[0] >= 1
    r.require(okr, "updateComponentTemp:reference-always-refreshed", ut, msg="the reference temperature must be refreshed (before the new temperature is set) on EVERY call, or a later step re-applies an earlier step's growth")
    tf = idx.method(ED, "_perComponentThermalExpansionFactors") if "_perComponentThermalExpansionFactors" in idx.cls(ED).methods else None
    if tf is not None:
        txt = norm(tf.node)
        r.require("self.componentReferenceTemperature" in txt and "getThermalExpansionFactor" in txt, "thermal-factor-from-reference", tf, msg="the thermal growth factor is computed from the stored reference temperature")
    se = idx.method(ED, "setExpansionFactors")
    r.require(sum(1 for n in walk_local(se.node) if isinstance(n, ast.Raise)) >= 2 and "exp <= 0.0" in norm(se.node), "setExpansionFactors:validated", se, msg="unequal lists and non-positive growth must raise")
    ge = idx.method(ED, "getExpansionFactor")
    r.require("self._expansionFactors.get(c, 1.0)" in norm(ge.node), "getExpansionFactor:default-1", ge, msg="components without a prescribed growth keep their height (factor 1)")


AXM = "armi.reactor.converters.axialExpansionChanger"


def r4_designated_target(idx, r):
    """'moves each block boundary with its DESIGNATED target component': when a block names its target
    (b.p.axialExpTargetComponent), that component is used - the test for it comes before every flag-based default."""
    f = idx.method(AXM + ".expansionData.ExpansionData", "_setTargetComponents")
    if f is None:
        raise AnchorMissing("ExpansionData._setTargetComponents")
    env = single_assign_env(f.node)
    calls = [c for c in iter_calls(f.node) if call_attr(c) == "_setExpansionTarget" and len(c.args) >= 2
             and "axialExpTargetComponent" in norm(propagate(c.args[1], env))]
    if not calls:
        raise AnchorMissing("_setTargetComponents: use of b.p.axialExpTargetComponent")
    for c in calls:
        conds = [(norm(t), p) for t, p in path_conditions(f.node, c)]
        others = [(t, p) for t, p in conds if "axialExpTargetComponent" not in t]
        r.require(not others and any(p for t, p in conds if "axialExpTargetComponent" in t), "designated-target-first", f, node=c,
                  msg=f"the designated target is only used when {others} - a flag-based default (e.g. clad for plenum blocks) is consulted first and overrides what the block designates")


def r7_target_always_registered(idx, r):
    """determineTargetComponent both picks the target and REGISTERS it (_setExpansionTarget): every way of leaving it
    normally must have registered a component, or the block has no target and its height is frozen while its solids grow."""
    f = idx.method(AXM + ".expansionData.ExpansionData", "determineTargetComponent")
    if f is None:
        raise AnchorMissing("ExpansionData.determineTargetComponent")
    fl = Flow(f.node, lambda n: ["registered"] if isinstance(n, ast.Call) and call_attr(n) == "_setExpansionTarget" else []).run()
    bad = [e for e in fl.normal_exits() if e.state.get("registered", (0, 0))[0] < 1]
    r.require(not bad, "determineTargetComponent:registers-on-every-path", f, node=bad[0].node if bad and bad[0].node is not None else f.node,
              msg="a path returns a component without registering it as the block's target (e.g. the single-solid fallback): the block then has no designated target, "
                  "its boundary does not move with any component and target mass is not conserved")


def r5_fresh_state_per_assembly(idx, r):
    """Prescribed expansions are applied through one changer object, assembly after assembly and step after step:
    setAssembly rebuilds the axial linkage and the expansion data on EVERY call, or factors of an earlier step survive
    for components the new step does not name."""
    f = idx.method(AXM + ".axialExpansionChanger.AxialExpansionChanger", "setAssembly")
    if f is None:
        raise AnchorMissing("AxialExpansionChanger.setAssembly")

    def ev(n):
        out = []
        if isinstance(n, ast.Assign):
            for t in n.targets:
                if norm(t) == "self.linked" and isinstance(n.value, ast.Call) and (dotted(n.value.func) or "").endswith("AssemblyAxialLinkage"):
                    out.append("linked")
                if norm(t) == "self.expansionData" and isinstance(n.value, ast.Call) and (dotted(n.value.func) or "").endswith("ExpansionData"):
                    out.append("data")
        return out
    fl = Flow(f.node, ev).run()
    for fact, what in (("linked", "the axial linkage"), ("data", "the expansion data")):
        bad = [e for e in fl.normal_exits() if e.state.get(fact, (0, 0))[0] < 1]
        r.require(not bad, f"setAssembly:rebuilds-{fact}", f, msg=f"a path through setAssembly keeps {what} of a previous call: expansion factors set for an earlier step stay in effect "
                  "for components the next step does not name, so an expansion followed by its inverse does not restore the assembly")


def r6_none_tests(idx, r):
    from .c03 import r8_none_tests
    r8_none_tests(idx, r, modules=("armi.reactor.components.component", AXM), floor=5)


def r8_factor_table(idx, r):
    """ExpansionData keeps ONE table of factors per component for the life of the object (thermal and prescribed factors may be supplied in
    several batches before the assembly is expanded).  (a) only __init__ binds the table; every other writer stores entries into it;
    (b) the thermal per-component routine stores an entry on EVERY path - a path that returns without doing so leaves the factor of the previous
    step in force for a component whose temperature did not change; (c) registering a target writes the registry AND the block's
    axialExpTargetComponent parameter unconditionally - later expansions with fresh ExpansionData read the name from the block."""
    ED = AXM + ".expansionData.ExpansionData"
    c = idx.cls(ED)
    n = 0
    for name, f in c.methods.items():
        for s_ in iter_stores(f.node):
            if s_.chain == "self._expansionFactors" and s_.kind in ("assign", "aug", "del"):
                n += 1
                r.require(name == "__init__", f"{name}:table-bound-only-at-construction", f, node=s_.stmt,
                          msg=f"`{norm(s_.stmt)[:70]}` replaces the whole table of expansion factors: factors supplied earlier on the same ExpansionData (another batch of components, thermal "
                              "factors before prescribed ones) are discarded and those components do not expand")
    sf = c.methods.get("setExpansionFactors")
    pc = c.methods.get("_perComponentThermalExpansionFactors")
    st = c.methods.get("_setExpansionTarget")
    if sf is None or pc is None or st is None:
        raise AnchorMissing("ExpansionData.setExpansionFactors/_perComponentThermalExpansionFactors/_setExpansionTarget")
    ent = [s_ for s_ in iter_stores(sf.node) if s_.kind == "subscript" and s_.chain == "self._expansionFactors"] + \
          [s_ for s_ in iter_stores(sf.node) if s_.kind == "mutcall" and s_.chain == "self._expansionFactors" and s_.method == "update"]
    r.require(bool(ent), "setExpansionFactors:stores-entries", sf, msg="the prescribed factors are stored as entries of the existing table")
    comp = pc.params()[1]
    fl = Flow(pc.node, lambda nd: ["set"] if isinstance(nd, ast.Assign) and any(norm(t) == f"self._expansionFactors[{comp}]" for t in nd.targets) else []).run()
    bad = [e for e in fl.normal_exits() if e.state.get("set", (0, 0))[0] < 1]
    r.require(not bad, "_perComponentThermalExpansionFactors:entry-on-every-path", pc, node=bad[0].node if bad and bad[0].node is not None else pc.node,
              msg="a path leaves without storing this component's factor: the factor computed in a previous step stays in the table and the component is expanded again although "
                  "its temperature did not change")
    blk, tgt = st.params()[1], st.params()[2]
    for what, pred in (("registry", lambda nd: isinstance(nd, ast.Assign) and any(norm(t) == f"self._componentDeterminesBlockHeight[{tgt}]" for t in nd.targets)),
                       ("block-parameter", lambda nd: isinstance(nd, ast.Assign) and any(norm(t) == f"{blk}.p.axialExpTargetComponent" for t in nd.targets) and norm(nd.value) == f"{tgt}.name")):
        fl = Flow(st.node, lambda nd, pred=pred: ["w"] if pred(nd) else []).run()
        bad = [e for e in fl.normal_exits() if e.state.get("w", (0, 0))[0] < 1]
        r.require(not bad, f"_setExpansionTarget:{what}-always-written", st,
                  msg=f"the target's {what} is not written on every path: a re-designated target is known to this ExpansionData but not to the block (or vice versa), and the next "
                      "expansion grows the block by another component than the designated one")
    # (d) one target per block: designating a target withdraws the designation of every other component of that block
    loops = [x for x in walk_local(st.node) if isinstance(x, ast.For) and norm(x.iter) in (blk, f"{blk}.getChildren()", f"iterSolidComponents({blk})")]
    cleared = any(isinstance(c_, ast.Call) and norm(c_.func) == "self._componentDeterminesBlockHeight.pop" and c_.args and norm(c_.args[0]) == norm(lp.target) for lp in loops for c_ in ast.walk(lp)) or \
        any(isinstance(d_, ast.Delete) and any(norm(t) == f"self._componentDeterminesBlockHeight[{norm(lp.target)}]" for t in d_.targets) for lp in loops for d_ in ast.walk(lp))
    r.require(cleared, "_setExpansionTarget:one-target-per-block", st,
              msg="registering a target leaves a previously designated component of the same block registered as well: after re-targeting (determineTargetComponent(b, flag)) the block has two "
                  "'targets', the stale one still moves the block boundary and the designated component's mass is not conserved")
    cls_level = [x for x in c.node.body if isinstance(x, (ast.Assign, ast.AnnAssign)) and getattr(x, "value", None) is not None
                 and any(norm(t) == "_expansionFactors" for t in (x.targets if isinstance(x, ast.Assign) else [x.target]))]
    r.require(not cls_level, "factor-table:no-class-level-table", c, node=cls_level[0] if cls_level else None,
              msg=f"`{norm(cls_level[0])[:60] if cls_level else ''}` makes ONE table shared by every ExpansionData: prescribed factors of an earlier assembly or step leak into later ones")
    init_bind = any(s_.chain == "self._expansionFactors" and s_.kind == "assign" for s_ in iter_stores(c.methods["__init__"].node)) if "__init__" in c.methods else False
    r.require(init_bind, "factor-table:bound-per-instance", c.methods.get("__init__") or c, msg="__init__ must bind a fresh factor table for every ExpansionData")


def r9_unique_link_both_ways(idx, r):
    """A component may be axially linked to at most ONE component of the block above and ONE of the block below; the search that finds the
    linked component must look at every candidate (no early exit) and is called in the same way for both neighbours, or a component resting
    on two linked components is silently tied to the first."""
    c = idx.cls(AXM + ".assemblyAxialLinkage.AssemblyAxialLinkage")
    f = c.methods.get("_findComponentLinkedTo") if c is not None else None
    g = c.methods.get("_getLinkedComponents") if c is not None else None
    if f is None or g is None:
        raise AnchorMissing("AssemblyAxialLinkage._findComponentLinkedTo / _getLinkedComponents")
    loops = [x for x in walk_local(f.node) if isinstance(x, ast.For)]
    early = [x for lp in loops for x in ast.walk(lp) if isinstance(x, (ast.Break, ast.Return))]
    r.require(bool(loops) and not early, "_findComponentLinkedTo:scans-every-candidate", f, node=early[0] if early else None,
              msg="the candidate scan can stop at the first linked component: a second linked component in the same neighbouring block is no longer noticed and refused")
    r.require(any(isinstance(x, ast.Raise) for x in walk_local(f.node)), "_findComponentLinkedTo:multiple-links-refused", f, msg="more than one linked component in a neighbouring block must raise")
    calls = [c_ for c_ in iter_calls(g.node) if dotted(c_.func) == "self._findComponentLinkedTo"]
    shapes = {(len(c_.args), tuple(sorted(k.arg for k in c_.keywords))) for c_ in calls}
    r.require(len(calls) == 2 and len(shapes) == 1, "_getLinkedComponents:both-neighbours-searched-alike", g, node=calls[0] if calls else None,
              msg=f"the upper and the lower neighbour are searched with different arguments {sorted(shapes)}: uniqueness is then enforced for one direction only")


def r10_mass_switches(idx, r):
    """(a) Component.changeNDensByFactor binds a NEW density mapping: scaling in place also rescales every other component that shares the
    mapping object (copyParamsFrom, explicit sharing), once per expansion.  (b) when a block is snapped to a new mesh the fuel mass of a FUEL
    block is conserved whatever the flags of its assembly: the fuel-block branch of _shouldMassBeConserved depends on the block alone."""
    f = idx.method("armi.reactor.components.component.Component", "changeNDensByFactor")
    bind = [s_ for s_ in iter_stores(f.node) if s_.chain == "self.p.numberDensities" and s_.kind == "assign"]
    inpl = [s_ for s_ in iter_stores(f.node) if s_.kind in ("subscript", "subscript-aug") and ("numberDensities" in norm(s_.node.value))]
    env = single_assign_env(f.node)
    r.require(len(bind) == 1 and isinstance(propagate(bind[0].value, env), (ast.DictComp, ast.Call, ast.Dict)) and not inpl, "changeNDensByFactor:new-mapping", f, node=inpl[0].stmt if inpl else None,
              msg="the densities are rescaled inside the existing mapping: a component sharing that mapping is rescaled too (and again at every expansion), so its mass is not conserved")
    g = idx.method("armi.reactor.assemblies.Assembly", "_shouldMassBeConserved")
    blk = g.params()[2] if len(g.params()) > 2 else g.params()[-1]
    st = [s_ for s_ in iter_stores(g.node) if s_.attr == "conserveComponents" and s_.value is not None and "Flags.FUEL" in norm(s_.value)]
    if len(st) != 1:
        raise AnchorMissing("_shouldMassBeConserved: conserveComponents = b.getComponents(Flags.FUEL)")
    conds = [(norm(t), p) for t, p in path_conditions(g.node, st[0].stmt)]
    bname = norm(st[0].value.func.value) if isinstance(st[0].value, ast.Call) else "b"
    r.require(conds == [(f"{bname}.hasFlags(Flags.FUEL)", True)], "_shouldMassBeConserved:fuel-block-whatever-the-assembly", g, node=st[0].stmt,
              msg=f"the fuel mass of a fuel block is conserved only under {conds}: in an assembly whose own flags lack FUEL (a radial blanket) the fuel blocks change mass when they are snapped to the expanded mesh")


def r11_every_solid_fresh_linkage(idx, r):
    """(a) the components that expand axially are ALL components that are not fluids: the filter of iterSolidComponents names the Fluid class
    and nothing else.  A further excluded class (say Custom, which has no thermal expansion) would still be a legal expansion TARGET and
    would still carry a prescribed growth - its block would no longer move with it.  (b) both entry points (prescribed, thermal) bind the
    changer to the assembly - setAssembly - on every path before factors are stored or computed: setAssembly also resets ExpansionData, so
    skipping it re-applies the factors of the previous call.  (c) argument pairing in the changer (setFuel / expandFromTinputToThot)."""
    from ..pairing import pairing_rule
    mod = "armi.reactor.converters.axialExpansionChanger"
    f = idx.func(mod + ".expansionData.iterSolidComponents")
    iso = [c for c in ast.walk(f.node) if isinstance(c, ast.Call) and dotted(c.func) == "isinstance"]
    if len(iso) != 1:
        raise AnchorMissing("iterSolidComponents: the isinstance filter")
    second = iso[0].args[1]
    env = single_assign_env(f.node)
    second = propagate(second, env)
    names = [norm(x) for x in (second.elts if isinstance(second, ast.Tuple) else [second])]
    r.require(names in (["material.Fluid"], ["Fluid"]), "iterSolidComponents:only-fluids-are-left-out", f, node=iso[0],
              msg=f"components of {names} are skipped: a component of another excluded class can still be the block's expansion target or be given a prescribed growth, and the block boundary then stays put")
    aec = idx.cls(mod + ".axialExpansionChanger.AxialExpansionChanger")
    n = 0
    for meth in ("performPrescribedAxialExpansion", "performThermalAxialExpansion"):
        g = aec.methods.get(meth)
        if g is None:
            raise AnchorMissing(f"AxialExpansionChanger.{meth}")
        fl = Flow(g.node, lambda nd: ["bound"] if isinstance(nd, ast.Call) and dotted(nd.func) == "self.setAssembly" else []).run()
        for c in iter_calls(g.node):
            if norm(c.func).startswith("self.expansionData.") or dotted(c.func) == "self.axiallyExpandAssembly":
                n += 1
                st = fl.state_before(c) or {}
                r.require(st.get("bound", (0, 0))[0] >= 1, f"{meth}:{call_attr(c)}:after-setAssembly-on-every-path", g, node=c,
                          msg=f"`{norm(c)[:60]}` can run without setAssembly(): the linkage and the expansion factors of an earlier call are reused (a component named before but not now grows again)")
    if n < 5:
        raise AnchorMissing("expansion steps in the two entry points")
    pairing_rule(idx, r, [mod], 25)


def r12_reference_reset_and_solid_test(idx, r):
    """(a) ExpansionData.updateComponentTempsBy1DTempField starts every temperature field from a clean table of reference temperatures and
    hands EVERY component of every block to updateComponentTemp: the reference of a component is the temperature it had before THIS field.
    Skipping components whose temperature happens to be unchanged leaves the reference of an earlier field in the table, and the same growth
    is applied again.  (b) `Component.containsSolidMaterial` - what axial linking asks - and `iterSolidComponents` - what is expanded - use
    the same test: everything but a Fluid is solid."""
    f = idx.method(ED, "updateComponentTempsBy1DTempField")
    calls = [c for c in iter_calls(f.node) if dotted(c.func) == "self.updateComponentTemp"]
    if len(calls) != 1:
        raise AnchorMissing("updateComponentTempsBy1DTempField: self.updateComponentTemp(c, T)")
    conds = [norm(t) for t, _p in path_conditions(f.node, calls[0]) if "temperatureInC" in norm(t) or "blockAveTemp" in norm(t)]
    r.require(not conds, "tempField:every-component-updated", f, node=calls[0],
              msg=f"a component is only updated under {conds}: one that is already at the block temperature keeps the reference temperature of an earlier field and grows again by the earlier step")
    fl = Flow(f.node, lambda nd: ["reset"] if isinstance(nd, ast.Assign) and norm(nd) in ("self.componentReferenceTemperature = {}", "self.componentReferenceTemperature = dict()") or (isinstance(nd, ast.Call) and norm(nd.func) == "self.componentReferenceTemperature.clear") else []).run()
    st = fl.state_before(calls[0]) or {}
    r.require(st.get("reset", (0, 0))[0] >= 1, "tempField:reference-table-reset-first", f, node=calls[0],
              msg="the table of reference temperatures is not emptied before the components of this field are recorded: entries of an earlier field survive for components that are skipped")
    g = idx.method("armi.reactor.components.component.Component", "containsSolidMaterial")
    iso = [c for c in ast.walk(g.node) if isinstance(c, ast.Call) and dotted(c.func) == "isinstance"]
    if len(iso) != 1:
        raise AnchorMissing("containsSolidMaterial: isinstance test")
    second = iso[0].args[1]
    names = [norm(x) for x in (second.elts if isinstance(second, ast.Tuple) else [second])]
    r.require(names in (["material.Fluid"], ["Fluid"]), "containsSolidMaterial:same-test-as-iterSolidComponents", g, node=iso[0],
              msg=f"a component of {names} is not 'solid' for axial linking while iterSolidComponents still expands everything but fluids: it grows but is not linked, and components stop being contiguous")


def r13_every_factor_every_step_snap_after_all(idx, r):
    """(a) ExpansionData._setComponentThermalExpansionFactors computes a factor for EVERY solid component of the block: a component that is
    skipped keeps the factor of an earlier step in the table, and the earlier growth is applied again.  (b) expandColdDimsToHot snaps the
    assemblies to the reference mesh only after ALL of them were expanded - inside the expansion loop an assembly listed before the reference
    one would be snapped to the still-cold reference mesh, and the result would depend on the order of the list.  (c) makeAxialSnapList finds
    the reference mesh point that IS the block top (`np.isclose`): the first point at or above it is the next one whenever the running sum of
    heights is a last bit smaller."""
    f = idx.method(ED, "_setComponentThermalExpansionFactors")
    calls = [c for c in iter_calls(f.node) if call_attr(c) == "_perComponentThermalExpansionFactors"]
    if len(calls) != 1:
        raise AnchorMissing("_setComponentThermalExpansionFactors: per-component call")
    conds = [norm(t) for t, _p in path_conditions(f.node, calls[0])]
    r.require(not conds, "thermal-factors:computed-for-every-solid-component", f, node=calls[0],
              msg=f"a component's factor is only recomputed under {conds}: a skipped component keeps the factor stored by an earlier step")
    g = idx.method(AXM + ".axialExpansionChanger.AxialExpansionChanger", "expandColdDimsToHot")
    loops = [x for x in walk_local(g.node) if isinstance(x, ast.For) and any(call_attr(c) == "axiallyExpandAssembly" for c in iter_calls(x))]
    snaps = [c for c in iter_calls(g.node) if call_attr(c) == "setBlockMesh"]
    if not loops or not snaps:
        raise AnchorMissing("expandColdDimsToHot: expansion loop and setBlockMesh")
    inside = [c for c in snaps if any(any(y is c for y in ast.walk(lp)) for lp in loops)]
    r.require(not inside, "expandColdDimsToHot:snap-after-all-assemblies-expanded", g, node=inside[0] if inside else None,
              msg="setBlockMesh(reference mesh) runs inside the loop that expands the assemblies: an assembly that comes before the reference assembly is snapped to the reference's cold mesh")
    h = idx.method("armi.reactor.assemblies.Assembly", "makeAxialSnapList")
    st = [s_ for s_ in iter_stores(h.node) if s_.chain and s_.chain.endswith(".p.topIndex") and s_.value is not None]
    if not st:
        raise AnchorMissing("makeAxialSnapList: b.p.topIndex = ...")
    for s_ in st:
        v = s_.value
        r.require(any(isinstance(c, ast.Call) and dotted(c.func) in ("np.isclose", "numpy.isclose", "math.isclose") for c in ast.walk(v)) and not any(isinstance(y, ast.Compare) and isinstance(y.ops[0], (ast.Lt, ast.Gt, ast.LtE, ast.GtE)) for y in ast.walk(v)),
                  "makeAxialSnapList:top-index-by-tolerant-equality", h, node=s_.stmt,
                  msg=f"`{norm(s_.stmt)[:80]}` picks a mesh point by an ordering comparison: a top that is one rounding error below its mesh point gets the NEXT index and every boundary above shifts")


BLOCK = "armi.reactor.blocks.Block"
ASSEMBLY = "armi.reactor.assemblies.Assembly"
COMPONENT = "armi.reactor.components.component.Component"


def _creates_object(idx, f, name, env):
    """Every binding of the local `name` in `f` creates the object it names: a class is called, the result of a call is called (a class picked
    at run time), copy.copy / copy.deepcopy, or a call that is handed `name` itself (the fresh object transformed).  Parameters, loop
    variables, subscripts and attribute reads name objects that already live somewhere."""
    from ..index import ClassInfo
    if name in f.params() or name == "self":
        return False
    binds = [s_ for s_ in iter_stores(f.node, include_nested=False) if isinstance(s_.node, ast.Name) and s_.attr == name]
    if not binds:
        return False
    for s_ in binds:
        v = s_.value
        if not (s_.kind == "assign" and isinstance(s_.stmt, ast.Assign) and len(s_.stmt.targets) == 1 and s_.stmt.targets[0] is s_.node and isinstance(v, ast.Call)):
            return False
        fn = propagate(v.func, {k: x for k, x in env.items() if k != name})
        d = dotted(fn)
        if isinstance(fn, ast.Call):
            continue
        if d in ("copy.deepcopy", "copy.copy", "deepcopy"):
            continue
        if d is not None and isinstance(idx.resolve_name(f.module, d), ClassInfo):
            continue
        if any(isinstance(a, ast.Name) and a.id == name for a in list(v.args) + [k.value for k in v.keywords]):
            continue
        return False
    return True


def r14_height_writers_restack(idx, r):
    """'each block's bottom is the top of the one below, and the axial grid bounds equal those elevations' is kept by ONE routine,
    Assembly.calculateZCoords, which re-derives zbottom/ztop/bounds from the heights.  Hence for EVERY place of the tree that stores a block's
    `p.height` directly: (a) it is the constructor of the block (nothing is stacked yet), or (b) the stored value is that block's own
    ztop - zbottom (the elevations are the source: axiallyExpandAssembly, whose bounds R12.2 decides), or (c) the block was created in this
    function and has not been handed to an assembly yet, or (d) EVERY way of leaving the function normally after the store has passed
    calculateZCoords (for Block.setHeight: whenever the block has a parent).  An early `return` between the store and the re-stacking - also
    one taken in a LATER iteration of the loop that resizes the blocks - leaves heights and elevations in disagreement; the next axial
    expansion re-stacks bottoms from the stale tops and the assembly's total height changes."""
    from ..own import all_stores
    cz = idx.method(ASSEMBLY, "calculateZCoords")
    written = {s_.chain.split(".", 1)[1] if s_.chain and "." in s_.chain else s_.attr for s_ in iter_stores(cz.node) if s_.kind == "assign" and s_.chain}
    r.require({"p.zbottom", "p.ztop", "spatialGrid._bounds"} <= written, "calculateZCoords:rederives-bottoms-tops-and-bounds", cz,
              msg=f"calculateZCoords no longer writes all of zbottom, ztop and the grid bounds (writes {sorted(written)}): the elevations are not re-derived from the heights by anybody")
    sites = [(f, s_) for f, s_ in all_stores(idx, "height") if s_.chain and s_.chain.endswith(".p.height") and ".tests" not in f.module.name]
    sites += [(f, s_) for f, s_ in all_stores(idx, "p") if s_.kind in ("subscript", "subscript-aug") and s_.chain and isinstance(s_.node.slice, ast.Constant) and s_.node.slice.value == "height"
              and ".tests" not in f.module.name]
    sh = idx.method(BLOCK, "setHeight")
    if not any(f is sh or f.node is sh.node for f, _s in sites):
        raise AnchorMissing("Block.setHeight: the store of self.p.height")
    seen = {}
    for f, s_ in sites:
        blk = s_.chain[: -len(".p.height")] if s_.chain.endswith(".p.height") else s_.chain[: -len(".p")]
        key = f"{f.qualname}:{blk}.p.height"
        seen[key] = seen.get(key, 0) + 1
        if seen[key] > 1:
            key += f"#{seen[key]}"
        if not isinstance(f.node, (ast.FunctionDef, ast.AsyncFunctionDef)):
            r.undecided(key, f, "a block height is stored by module-level code", node=s_.stmt)
            continue
        if blk == "self" and f.name == "__init__":
            r.ok(key + ":constructor", f, node=s_.stmt)
            continue
        env = single_assign_env(f.node)
        if s_.kind == "assign" and s_.value is not None and norm(propagate(s_.value, env)) == f"{blk}.p.ztop - {blk}.p.zbottom":
            r.ok(key + ":is-top-minus-bottom", f, node=s_.stmt)
            continue
        fresh = "." not in blk and _creates_object(idx, f, blk, env)

        def ev(n, stmt=s_.stmt, blk=blk):
            if n is stmt:
                return ["resized"]
            if isinstance(n, ast.Call) and call_attr(n) == "calculateZCoords":
                return ["restacked"]
            if isinstance(n, ast.Call) and call_attr(n) in ("add", "insert", "append", "extend") and any(isinstance(a, ast.Name) and a.id == blk for x in list(n.args) + [k.value for k in n.keywords] for a in ast.walk(x)):
                return ["stacked"]
            return []

        def stacked_block(t, blk=blk):
            """the block sits in an assembly (a block without parent has no elevations that could go stale)"""
            pol = True
            while isinstance(t, ast.UnaryOp) and isinstance(t.op, ast.Not):
                t, pol = t.operand, not pol
            txt = norm(t)
            if txt in (f"{blk}.parent", f"{blk}.parent is not None", f"{blk}.parent != None"):
                return pol
            if txt in (f"{blk}.parent is None", f"{blk}.parent == None"):
                return not pol
            return None
        fl = Flow(f.node, ev, assume=stacked_block).run()
        before = fl.state_before(s_.stmt) or {}
        if fresh and before.get("stacked", (0, 0))[1] == 0:
            r.ok(key + ":block-created-here-not-stacked-yet", f, node=s_.stmt)
            continue
        if before.get("restacked", (0, 0))[1] > 0:
            r.undecided(key + ":restacked-on-every-path-out", f, "calculateZCoords may run BEFORE this store as well: event counting cannot tell which came last", node=s_.stmt)
            continue
        bad = [e for e in fl.normal_exits() if e.state.get("resized", (0, 0))[1] > 0 and e.state.get("restacked", (0, 0))[0] < 1]
        where = ", ".join(sorted({f"line {e.line}" if e.line else "the end of the function" for e in bad}))
        r.require(not bad, key + ":restacked-on-every-path-out", f, node=(bad[0].node if bad and bad[0].node is not None else s_.stmt),
                  msg=f"`{norm(s_.stmt)[:60]}` changes a block height and the function can then be left ({where}) without calculateZCoords(): the resized blocks keep their old "
                      "zbottom/ztop and the grid keeps its old bounds (e.g. a snap abandoned at a later block because the reference mesh is too short or has a None entry); "
                      "the next axial expansion re-stacks the bottoms from the stale tops and the assembly's total height changes")


def r15_temperature_and_densities_together(idx, r):
    """'by any temperature field ... the mass of each block's target component is always conserved': a component's hot area is a function of
    its temperature, so a method of the Component family that stores a new `temperatureInC` rescales the number densities by the material's
    density change (prev -> new) and drops the cached areas/volumes on EVERY path on which the temperature was stored - however small the
    step (a slow ramp of 0.05 C steps is a temperature field like any other; the skipped rescalings add up).  Exempt: the constructor (the
    densities are derived afterwards, at that temperature) and the property setter (the primitive the others store through).  And a
    temperature handed in is stored.  Paths are those of the generic input: a test for EQUALITY of two numbers (old and new temperature,
    factor and 1.0) is taken as false - what it guards is the identity.  Inside the axial-expansion package nobody stores a temperature
    except through that method."""
    from ..own import all_stores
    comp = idx.cls(COMPONENT)
    family = {id(m.node): (c, m) for c in idx.subclasses(comp, strict=False) for m in c.methods.values()}
    sites = [(f, s_) for f, s_ in all_stores(idx, "temperatureInC") if s_.chain in ("self.temperatureInC", "self.p.temperatureInC") and id(f.node) in family]
    st = comp.methods.get("setTemperature")
    if st is None or not any(f.node is st.node for f, _s in sites):
        raise AnchorMissing("Component.setTemperature: the store of self.temperatureInC")
    for f, s_ in sites:
        key = f"{f.qualname}"
        if f.name == "__init__":
            r.ok(key + ":constructor", f, node=s_.stmt)
            continue
        if any(isinstance(d, ast.Attribute) and d.attr == "setter" and norm(d.value) == "temperatureInC" for d in f.node.decorator_list):
            r.ok(key + ":property-setter", f, node=s_.stmt)
            continue
        env = single_assign_env(f.node)

        def ev(n, stmt=s_.stmt, env=env):
            if n is stmt:
                return ["stored"]
            if isinstance(n, ast.Call) and norm(n.func) == "self.changeNDensByFactor" and n.args:
                a = propagate(n.args[0], env)
                if any(isinstance(x, ast.Call) and call_attr(x) == "getThermalExpansionDensityReduction" for x in ast.walk(a)):
                    return ["rescaled"]
            if isinstance(n, ast.Call) and norm(n.func) == "self.clearLinkedCache":
                return ["cleared"]
            return []

        def generic(t):
            """the generic input: two run-time NUMBERS are not equal (`if f != 1.0:` around the rescaling, `if new == old: return` are identities of the special case they test)"""
            if isinstance(t, ast.Compare) and len(t.ops) == 1 and isinstance(t.ops[0], (ast.Eq, ast.NotEq)) and \
                    not any(isinstance(x, ast.Constant) and (x.value is None or isinstance(x.value, (str, bool, bytes))) for x in [t.left] + t.comparators):
                return isinstance(t.ops[0], ast.NotEq)
            return None
        fl = Flow(f.node, ev, assume=generic).run()
        exits = fl.normal_exits()
        if not exits:
            raise AnalysisError(f"{f.qualname}: no normal exit")
        for fact, what, then in (("rescaled", "rescaling the number densities by material.getThermalExpansionDensityReduction(prev, new)",
                                  "the hot area follows the new temperature while the densities stay, so the component's mass drifts - by every step of a slow ramp, cumulatively"),
                                 ("cleared", "clearLinkedCache()", "the component's and the block's cached areas/volumes are those of the old temperature and masses are computed from them")):
            bad = [e for e in exits if e.state.get("stored", (0, 0))[1] > 0 and e.state.get(fact, (0, 0))[0] < 1]
            conds = [norm(t) for e in bad if e.node is not None for t, _p in path_conditions(f.node, e.node)]
            r.require(not bad, f"{key}:{fact}-whenever-the-temperature-was-stored", f, node=(bad[0].node if bad and bad[0].node is not None else s_.stmt),
                      msg=f"{f.name} can be left after the new temperature was stored without {what}{' (under `' + conds[0][:60] + '`)' if conds else ''}: {then}")
        unset = [e for e in exits if e.state.get("stored", (0, 0))[0] < 1]
        r.require(not unset, f"{key}:temperature-stored-on-every-path", f, node=(unset[0].node if unset and unset[0].node is not None else s_.stmt),
                  msg=f"{f.name} can return without storing the temperature it was given (although it differs from the present one): the component stays at the old temperature, the thermal "
                      "expansion factor of this step is computed from it and the block does not grow with its target")
    n = 0
    for m in idx.modules.values():
        if not (m.name + ".").startswith(AXM + ".") or ".tests" in m.name:
            continue
        n += 1
        for f in m.all_funcs():
            for s_ in iter_stores(f.node, include_nested=False):
                if s_.attr == "temperatureInC" and s_.chain and "." in s_.chain:
                    r.violate(f"{f.qualname}:stores-a-temperature-directly", f, f"`{norm(s_.stmt)[:70]}` changes a component's temperature without Component.setTemperature: the densities are not "
                              "rescaled by the area change and the expanded component's mass is not conserved", node=s_.stmt)
    if n < 3:
        raise AnchorMissing("modules of the axial expansion package")
    ut = idx.method(ED, "updateComponentTemp")
    r.require(any(call_attr(c) == "setTemperature" for c in iter_calls(ut.node)), "updateComponentTemp:through-setTemperature", ut,
              msg="the temperature field is no longer applied through Component.setTemperature (the one routine that rescales the densities with the area)")


def run(idx, chk):
    chk.explanation = (
        "C12: axiallyExpandAssembly typed with a role generator for the growth fraction (height x growth, densities x growth^-1); block bottoms on the "
        "lower block's top, tops only from target components and never for the dummy block, heights as differences, the height check on the NEW height, "
        "mesh from tops into the grid bounds, component stacking cases; linkage detection on cold diameters; reference temperature refreshed on every "
        "update; every direct writer of a block height re-stacks (calculateZCoords) on every path out; every Component method that stores a temperature "
        "rescales the densities and drops the caches on every such path. Mass numbers and inverse-expansion restoration are NOT decided."
    )
    chk.undecided_clauses = ["mass numbers", "inverse expansion restoring the state numerically"]
    chk.run_rule("R12.1", "component height x growth and densities x growth^-1 on the same component; cold-height increase by 1 + expansion(Tinput->T)", lambda r: r1_exponent(idx, r), floor=6, necessary="mass of each expanded component is conserved")
    chk.run_rule("R12.2", "blocks stay stacked bottom-on-top, dummy top fixed, height check after the update, mesh from tops, components on their linked lower component", lambda r: r2_stacking(idx, r), floor=15,
                 necessary="assembly height unchanged, blocks contiguous with positive height, grid bounds equal the elevations")
    chk.run_rule("R12.3", "linkage uses cold diameters consistently; reference temperatures refreshed on every update; growth factors validated", lambda r: r3_linkage_and_temperature(idx, r), floor=10,
                 necessary="linked components stay stacked; expanding then applying the inverse restores heights")
    chk.run_rule("R12.4", "a block's designated target component is used before any flag-based default", lambda r: r4_designated_target(idx, r), floor=1, necessary="'moves each block boundary with its designated target component'")
    chk.run_rule("R12.5", "setAssembly rebuilds linkage and expansion data on every call", lambda r: r5_fresh_state_per_assembly(idx, r), floor=2, necessary="'expanding and then applying the inverse change restores heights, densities and masses'")
    chk.run_rule("R12.6", "optional temperatures of the expansion-factor functions are compared with None, never evaluated for truth", lambda r: r6_none_tests(idx, r), floor=5,
                 necessary="'by any temperature field': a reference temperature of exactly 0 C is a temperature")
    chk.run_rule("R12.7", "determineTargetComponent registers the component it picks on every path", lambda r: r7_target_always_registered(idx, r), floor=1,
                 necessary="'moves each block boundary with its designated target component'")
    chk.run_rule("R12.8", "one factor table per ExpansionData: bound at construction only, an entry stored on every thermal path; targets registered on block and registry alike", lambda r: r8_factor_table(idx, r), floor=5,
                 necessary="a block's height follows its designated target and a zero net temperature change restores the assembly")
    chk.run_rule("R12.9", "the search for the axially linked component scans every candidate and treats both neighbours alike", lambda r: r9_unique_link_both_ways(idx, r), floor=3,
                 necessary="a component linked to two components of a neighbouring block is refused, whichever side they are on")
    chk.run_rule("R12.10", "density scaling binds a new mapping; fuel-block mass conservation depends on the block's flags alone", lambda r: r10_mass_switches(idx, r), floor=2,
                 necessary="the mass of every solid component is conserved through expansion and re-meshing")
    chk.run_rule("R12.11", "only fluids are left out of the expansion; setAssembly precedes every expansion step on every path; arguments stand at their parameter", lambda r: r11_every_solid_fresh_linkage(idx, r), floor=7,
                 necessary="each block grows by its target component's factor of THIS call, computed from the reference temperature the caller chose")
    chk.run_rule("R12.12", "every component of a temperature field is updated from a fresh reference table; axial linking and expansion agree on what is solid", lambda r: r12_reference_reset_and_solid_test(idx, r), floor=3,
                 necessary="each block grows by its target's factor of this step only; solid components of neighbouring blocks stay contiguous")
    chk.run_rule("R12.13", "a thermal factor for every solid component; snapping after all assemblies are expanded; the snap index by tolerant equality", lambda r: r13_every_factor_every_step_snap_after_all(idx, r), floor=3,
                 necessary="each block grows by its target's factor of this step; the result does not depend on the order of the assemblies")
    chk.run_rule("R12.14", "every direct store of a block height is a constructor's, the block's own ztop - zbottom, on a block not stacked yet, or is followed by calculateZCoords on every path out", lambda r: r14_height_writers_restack(idx, r), floor=7,
                 necessary="'each block's bottom is the top of the one below, and the axial grid bounds equal those elevations' and the total height is unchanged by the NEXT expansion: heights and elevations agree whenever a height writer returns")
    chk.run_rule("R12.15", "a Component method that stores a new temperature rescales the densities by the material's density change and drops the linked caches on every such path; the expansion package changes temperatures through it only", lambda r: r15_temperature_and_densities_together(idx, r), floor=6,
                 necessary="'by any temperature field ... the mass of each block's target component is always conserved': every temperature change, however small, is compensated in the densities")
