"""C03 - thermal expansion: degree-2 homogeneity of every 2-D area formula in the expanding
lengths (proved by unit typing), forwarding of Tc/cold, agreement of the dimension tables, order
inside getDimension/setDimension, setTemperature's sequence, path independence of the expansion
factor (exact rational normal form), signature/temperature normalisation of every material's
linearExpansionPercent.  Structural necessary conditions only (DESIGN.md section 3, C03)."""
from __future__ import annotations

import ast

from ..astutil import call_attr, const_str, get_arg, iter_calls, iter_stores, propagate, single_assign_env, walk_local
from ..exprnf import Poly, Rat, RatEval
from ..flow import Flow, always_exits, path_conditions
from ..index import AnalysisError, AnchorMissing, dotted, norm
from ..units import ONE, TOP, ZERO, Law, U, analyze, known

COMP = "armi.reactor.components.component.Component"
MAT = "armi.materials.material.Material"
LAM = U("L")


def _ted(idx, c):
    a = c.lookup_attr("THERMAL_EXPANSION_DIMS")
    if a is None:
        return set()
    v = idx.fold(a[0].module, a[1], cls=a[0])
    return set(v) if v else set()


def _shapes2d(idx):
    comp = idx.cls(COMP)
    out = []
    for c in idx.subclasses(comp):
        is3 = c.lookup_attr("is3D")
        if is3 is not None and norm(is3[1]) == "True":
            continue
        if "getComponentArea" in c.methods:
            out.append(c)
    return out


def _dim_calls(fnode):
    return [c for c in iter_calls(fnode) if dotted(c.func) == "self.getDimension" and c.args and const_str(c.args[0]) is not None]


def r1_area_homogeneity(idx, r):
    n = 0
    for c in _shapes2d(idx):
        f = c.methods["getComponentArea"]
        dims = _dim_calls(f.node)
        if not dims:
            r.undecided(f"{c.name}.getComponentArea", f, "area is not computed from dimensions (stored/derived area)")
            continue
        ted = _ted(idx, c)

        def hook(call, ev, ted=ted):
            if dotted(call.func) == "self.getDimension" and call.args and const_str(call.args[0]) is not None:
                return LAM if const_str(call.args[0]) in ted else ONE
            return None
        ev = analyze(f.node, Law(consts={"math.pi": ONE, "np.pi": ONE}, call_hook=hook))
        n += 1
        key = f"{c.name}.getComponentArea"
        if ev.conflicts:
            node, a, b, what = ev.conflicts[0]
            r.violate(key, f, f"`{norm(node)[:80]}` combines terms of degree {a.exp('L')} and {b.exp('L')} in the expanding lengths {sorted(ted)}: the area cannot scale as the square of the linear expansion factor", node=node)
            continue
        if not ev.returns:
            r.undecided(key, f, "no return value")
            continue
        bad = [(st, u) for st, u in ev.returns if not (known(ev.flat(u)) and ev.flat(u) == LAM ** 2)]
        if bad:
            st, u = bad[0]
            uu = ev.flat(u)
            if known(uu):
                r.violate(key, f, f"area is homogeneous of degree {uu.exp('L')} (not 2) in the thermally expanding dimensions {sorted(ted)}", node=st)
            else:
                raise AnalysisError(f"{key}: area expression left the typed fragment")
        else:
            r.ok(key, f, node=ev.returns[0][0], msg=f"degree 2 in {sorted(ted)}")


def r2_forwarding(idx, r):
    for c in _shapes2d(idx):
        ted = _ted(idx, c)
        for meth in ("getComponentArea", "getBoundingCircleOuterDiameter", "getCircleInnerDiameter"):
            f = c.methods.get(meth)
            if f is None:
                continue
            for call in _dim_calls(f.node):
                k = const_str(call.args[0])
                if k not in ted:
                    continue
                tc, cold = get_arg(call, 1, "Tc"), get_arg(call, 2, "cold")
                r.require(tc is not None and cold is not None and norm(tc) == "Tc" and norm(cold) == "cold", f"{c.name}.{meth}:{k}", f, node=call,
                          msg=f"`{norm(call)}` does not forward both Tc and cold: the result mixes dimensions at different temperatures (signature is getDimension(key, Tc=None, cold=False))")
    ga = idx.method(COMP, "getArea")
    for call in [x for x in iter_calls(ga.node) if call_attr(x) == "getComponentArea"]:
        kw = {k.arg: norm(k.value) for k in call.keywords}
        r.require(kw.get("cold") == "cold" and kw.get("Tc") == "Tc", f"Component.getArea:{norm(call.func)}", ga, node=call, msg="getArea must forward cold and Tc to every getComponentArea")


def r3_tables(idx, r):
    comp = idx.cls(COMP)
    for c in idx.subclasses(comp):
        ted = _ted(idx, c)
        if not ted:
            continue
        init = c.resolve("__init__")
        stored = set()
        for call in iter_calls(init.node):
            if dotted(call.func) == "self._linkAndStoreDimensions":
                stored |= {k.arg for k in call.keywords if k.arg}
        r.require(ted <= stored, f"{c.name}:expanding-dims-are-stored", (c.module.relpath, c.node.lineno, c.name), msg=f"THERMAL_EXPANSION_DIMS {sorted(ted - stored)} are never stored by __init__ ({sorted(stored)})")
    gd, sd = idx.method(COMP, "getDimension"), idx.method(COMP, "setDimension")
    r.require("key not in self.THERMAL_EXPANSION_DIMS" in norm(gd.node) and "key in self.THERMAL_EXPANSION_DIMS" in norm(sd.node), "get/set-consult-same-table", gd, msg="getDimension and setDimension must consult the same table")
    mul = next((n for n in walk_local(gd.node) if isinstance(n, ast.Return) and isinstance(n.value, ast.BinOp) and isinstance(n.value.op, ast.Mult)), None)
    div = next((n for n in walk_local(sd.node) if isinstance(n, ast.AugAssign) and isinstance(n.op, ast.Div)), None)
    r.require(mul is not None and "getThermalExpansionFactor(Tc)" in norm(mul.value) and div is not None and norm(div.target) == "val", "inverse-operations", sd, msg="reading multiplies by the factor, hot writing divides by it")
    if div is not None:
        env = single_assign_env(sd.node)
        fac = propagate(div.value, env)
        r.require(norm(fac) == "self.getThermalExpansionFactor() if key in self.THERMAL_EXPANSION_DIMS else 1.0", "hot-write-factor", sd, node=div, msg=f"hot write must divide by this component's current factor for expanding dims, 1.0 otherwise: `{norm(fac)}`")


def r4_getdimension(idx, r):
    gd = idx.method(COMP, "getDimension")
    body = [s for s in gd.node.body if not (isinstance(s, ast.Expr) and isinstance(s.value, ast.Constant))]
    rets = [n for n in walk_local(gd.node) if isinstance(n, ast.Return)]
    link = next((n for n in rets if isinstance(n.value, ast.Call) and call_attr(n.value) == "resolveDimension"), None)
    exp = next((n for n in rets if isinstance(n.value, ast.BinOp)), None)
    raw = [n for n in rets if norm(n.value) == "dimension"]
    r.require(link is not None and exp is not None and link.lineno < exp.lineno and [(norm(t), p) for t, p in path_conditions(gd.node, link)] == [("isinstance(dimension, _DimensionLink)", True)], "link-first", gd, node=link,
              msg="a linked dimension must be resolved (returned) before any local expansion is applied")
    if link is not None:
        kw = {k.arg: norm(k.value) for k in link.value.keywords}
        r.require(kw == {"Tc": "Tc", "cold": "cold"}, "link-forwards", gd, node=link, msg=f"resolveDimension must receive Tc and cold: {kw}")
    r.require(len(raw) == 1 and [(norm(t), p) for t, p in path_conditions(gd.node, raw[0]) if p] == [("not dimension or cold or key not in self.THERMAL_EXPANSION_DIMS", True)], "cold-or-nonexpanding-unchanged", gd,
              node=raw[0] if raw else None, msg="the stored (cold) value is returned exactly when it is empty, cold is requested, or the dimension does not expand")
    r.require(exp is not None and norm(exp.value) in ("self.getThermalExpansionFactor(Tc) * dimension", "dimension * self.getThermalExpansionFactor(Tc)"), "hot-value", gd, node=exp, msg="hot dimension = factor(Tc) x cold dimension")
    rd = idx.method("armi.reactor.components.component._DimensionLink", "resolveDimension")
    env = single_assign_env(rd.node)
    ret = next((n for n in walk_local(rd.node) if isinstance(n, ast.Return)), None)
    r.require(ret is not None and norm(propagate(ret.value, env)) == "self[0].getDimension(self[1], Tc=Tc, cold=cold)", "resolveDimension", rd, node=ret, msg="a link resolves to the linked component's dimension at the same Tc/cold")
    tf = idx.method(COMP, "getThermalExpansionFactor")
    first = next((n for n in tf.node.body if isinstance(n, ast.If)), None)
    ok = first is not None and "material.Fluid" in norm(first.test) and "custom.Custom" in norm(first.test) and norm(first.body[0]) == "return 1.0"
    mat_use = [n for n in walk_local(tf.node) if isinstance(n, ast.Call) and "self.material." in norm(n.func)]
    ok = ok and all(c.lineno > first.lineno for c in mat_use)
    r.require(ok, "fluids-and-custom-do-not-expand", tf, node=first, msg="fluids and custom materials return exactly 1.0 before the material is consulted")
    dfl = {norm(n.test): norm(n.body[0]) for n in tf.node.body if isinstance(n, ast.If) and len(n.body) == 1 and isinstance(n.body[0], ast.Assign)}
    r.require(dfl.get("T0 is None") == "T0 = self.inputTemperatureInC" and dfl.get("Tc is None") == "Tc = self.temperatureInC", "factor-defaults", tf, msg=f"default reference is the input temperature, default target the current temperature: {dfl}")
    env = single_assign_env(tf.node)
    last = [n for n in walk_local(tf.node) if isinstance(n, ast.Return)][-1]
    r.require(norm(propagate(last.value, env)) == "1.0 + self.material.linearExpansionFactor(Tc=Tc, T0=T0)", "factor-formula", tf, node=last, msg="factor = 1 + linearExpansionFactor(Tc=Tc, T0=T0)")
    # setDimension: the linked branch hands the untouched value to the linked component
    sd = idx.method(COMP, "setDimension")

    def ev(n):
        if isinstance(n, (ast.AugAssign, ast.Assign)) and any(norm(t) == "val" for t in ([n.target] if isinstance(n, ast.AugAssign) else n.targets)):
            return ["val-changed"]
        return []
    fl = Flow(sd.node, ev).run()
    fw = next((c for c in iter_calls(sd.node) if call_attr(c) == "setDimension" and norm(c.func.value) != "self"), None)
    if fw is None:
        r.violate("setDimension:link-forward", sd, "linked branch not found")
    else:
        st = fl.state_before(fw) or {}
        args = [norm(a) for a in fw.args] + [f"{k.arg}={norm(k.value)}" for k in fw.keywords]
        r.require(st.get("val-changed", (0, 0)) == (0, 0) and args == ["linkedDimName", "val", "cold=cold"], "setDimension:link-forward", sd, node=fw,
                  msg=f"a value set through a link must reach the linked component unconverted, with the same `cold` flag (its own expansion factor applies): args {args}, value modified before {st.get('val-changed')}")
    r.require(any(dotted(c.func) == "self.clearLinkedCache" for c in iter_calls(sd.node)), "setDimension:clears-caches", sd, msg="changing a dimension must invalidate dependent caches")


def r5_settemperature(idx, r):
    f = idx.method(COMP, "setTemperature")

    def ev(n):
        out = []
        if isinstance(n, ast.Assign) and any("prevTemp" in norm(t) for t in n.targets) and "self.temperatureInC" in norm(n.value):
            out.append("prev")
        if isinstance(n, ast.Assign) and any("self.temperatureInC" in norm(t) for t in n.targets):
            out.append("store")
        if isinstance(n, ast.Call) and call_attr(n) == "getThermalExpansionDensityReduction":
            out.append("factor")
        if isinstance(n, ast.Call) and dotted(n.func) == "self.changeNDensByFactor":
            out.append("scale")
        if isinstance(n, ast.Call) and dotted(n.func) == "self.clearLinkedCache":
            out.append("clear")
        return out
    fl = Flow(f.node, ev).run()
    for e in fl.normal_exits():
        miss = [k for k in ("prev", "store", "factor", "scale", "clear") if e.state.get(k, (0, 0)) != (1, 1)]
        r.require(not miss, "sequence-complete", f, msg=f"every path must read the previous temperature, store the new one, get the density factor, scale densities and clear caches exactly once; missing/duplicated {miss}")
    fc = next((c for c in iter_calls(f.node) if call_attr(c) == "getThermalExpansionDensityReduction"), None)
    r.require(fc is not None and [norm(a) for a in fc.args] == ["prevTemp", "self.temperatureInC"] and "self.material" in norm(fc.func), "factor-args", f, node=fc, msg="density reduction is from the PREVIOUS to the NEW temperature, in that order")
    sc = next((c for c in iter_calls(f.node) if dotted(c.func) == "self.changeNDensByFactor"), None)
    env = single_assign_env(f.node)
    r.require(sc is not None and fc is not None and norm(propagate(sc.args[0], env)) == norm(fc), "scale-uses-factor", f, node=sc, msg="number densities must be scaled by exactly that factor")
    cn = idx.method(COMP, "changeNDensByFactor")
    r.require("dens * factor for nuc, dens in self.p.numberDensities.items()" in norm(cn.node) and any(dotted(c.func) == "self._changeOtherDensParamsByFactor" for c in iter_calls(cn.node)), "changeNDensByFactor", cn,
              msg="every nuclide (and the detailed/pin densities) must be scaled by the same factor")
    for owner in (COMP, "armi.reactor.composites.ArmiObject"):
        g = idx.method(owner, "changeNDensByFactor")
        if g is None:
            raise AnchorMissing(f"{owner}.changeNDensByFactor")

        def evs(n):
            if isinstance(n, ast.Assign) and any(norm(t) == "self.p.numberDensities" for t in n.targets):
                return ["scaled"]
            if isinstance(n, ast.Call) and dotted(n.func) == "self.setNumberDensities":
                return ["scaled"]
            return []
        flg = Flow(g.node, evs).run()
        bad = [e for e in flg.normal_exits() if e.state.get("scaled", (0, 0)) != (1, 1)]
        r.require(not bad, f"{owner.rsplit('.', 1)[-1]}.changeNDensByFactor:always-scales", g, node=bad[0].node if bad and bad[0].node is not None else g.node,
                  msg="a path leaves changeNDensByFactor without storing the scaled densities (e.g. an early return for factors 'close to one'): "
                      "the dimensions change at every temperature step, so the densities must too, or mass drifts along a fine ramp")
    cl = idx.method(COMP, "clearLinkedCache")
    txt = norm(cl.node)
    r.require("self.clearCache()" in txt and "self.parent.cached = {}" in txt and "c.p.volume = None" in txt, "clearLinkedCache", cl, msg="own cache, the parent's cache and linked components' volumes must all be invalidated")


def r6_path_independence(idx, r):
    m = idx.cls(MAT)
    lf = m.methods.get("linearExpansionFactor")
    env = single_assign_env(lf.node)
    ret = next((n for n in walk_local(lf.node) if isinstance(n, ast.Return)), None)
    E = RatEval()
    expr = propagate(ret.value, env)
    got = E.ev(expr)
    a, b = Poly.atom("self.linearExpansionPercent(Tc=Tc)"), Poly.atom("self.linearExpansionPercent(Tc=T0)")
    want = Rat(a - b, Poly.const(100) + b)
    r.require(got == want, "linearExpansionFactor:normal-form", lf, node=ret,
              msg=f"1 + f(T,T0) must equal (100+p(T))/(100+p(T0)) so that factors telescope (end state depends only on the final temperature); f normalises to {got}")
    r.require((Rat(1) + got) == Rat(Poly.const(100) + a, Poly.const(100) + b), "one-plus-f-is-a-ratio", lf, node=ret, msg="1 + f is not phi(T)/phi(T0)")
    dr = m.methods.get("getThermalExpansionDensityReduction")

    def form_ok(f):
        env = single_assign_env(f.node)
        rets = [n for n in walk_local(f.node) if isinstance(n, ast.Return)]
        if len(rets) != 1:
            return False, "more than one return"
        e = propagate(rets[0].value, env)
        fcall = next((c for c in ast.walk(e) if isinstance(c, ast.Call) and call_attr(c) == "linearExpansionFactor"), None)
        if fcall is None:
            return False, "does not use linearExpansionFactor"
        kw = {k.arg: norm(k.value) for k in fcall.keywords}
        params = f.params()[1:3]
        if kw != {"Tc": params[1], "T0": params[0]}:
            return False, f"linearExpansionFactor called with {kw}; must be Tc=<new>, T0=<previous>"
        atom = Poly.atom(norm(fcall))
        val = RatEval().ev(e)
        return val == Rat(1) / (Rat(1) + Rat(atom)) ** 2, f"normalises to {val}"
    ok, why = form_ok(dr)
    r.require(ok, "Material.densityReduction:(1+f)^-2", dr, msg=f"number densities must shrink by the inverse square of the linear factor (area grows by its square): {why}")
    fl_cls = idx.cls("armi.materials.material.Fluid")
    for c in idx.subclasses(m):
        f = c.methods.get("getThermalExpansionDensityReduction")
        if f is None:
            continue
        if c.is_subclass_of(fl_cls):
            env = single_assign_env(f.node)
            rets = [norm(propagate(n.value, env)) for n in walk_local(f.node) if isinstance(n, ast.Return)]
            r.require("self.pseudoDensity(Tc=newTempInC) / self.pseudoDensity(Tc=prevTempInC)" in rets, f"{c.name}.densityReduction:density-ratio", f, msg=f"a fluid's density factor is rho(new)/rho(previous): {rets}")
        else:
            ok, why = form_ok(f)
            r.require(ok, f"{c.name}.densityReduction:(1+f)^-2", f,
                      msg=f"a solid's dimensions follow linearExpansionPercent, so its density reduction must be (1+f)^-2 of the same f; this override {why}: mass per unit height is not conserved")
    for c in idx.subclasses(m):
        f = c.methods.get("linearExpansionFactor")
        if f is not None:
            r.violate(f"{c.name}.linearExpansionFactor:override", f, "overriding linearExpansionFactor breaks the ratio form that makes expansion path independent")


def r7_materials(idx, r):
    m = idx.cls(MAT)
    n = 0
    for c in [m] + idx.subclasses(m):
        f = c.methods.get("linearExpansionPercent")
        if f is None:
            continue
        n += 1
        a = f.node.args
        names = [x.arg for x in a.args]
        dflt = [norm(d) for d in a.defaults]
        r.require(names == ["self", "Tk", "Tc"] and dflt == ["None", "None"], f"{c.name}.linearExpansionPercent:signature", f, msg=f"signature must stay (self, Tk=None, Tc=None): {names} defaults {dflt} (components always call with Tc=)")
        passthru = {id(k.value) for c_ in iter_calls(f.node) for k in c_.keywords if isinstance(k.value, ast.Name) and k.arg == k.value.id and k.arg in ("Tk", "Tc")}
        uses = {x.id for x in ast.walk(f.node) if isinstance(x, ast.Name) and isinstance(x.ctx, ast.Load) and x.id in ("Tk", "Tc") and id(x) not in passthru}
        if not uses:
            continue  # constant result, or both temperatures handed on unchanged (Tk=Tk, Tc=Tc) to a method that normalises
        conv = [c_ for c_ in iter_calls(f.node) if (dotted(c_.func) or "").split(".")[-1] in ("getTk", "getTc")]
        first_use = min((x.lineno for x in ast.walk(f.node) if isinstance(x, ast.Name) and isinstance(x.ctx, ast.Load) and x.id in ("Tk", "Tc") and id(x) not in passthru
                         and not any(x in list(ast.walk(c_)) for c_ in conv)), default=None)
        okc = bool(conv) and (first_use is None or min(c_.lineno for c_ in conv) <= first_use)
        if not okc and any(dotted(c_.func) in ("self.linearExpansion", "self.getProperty") or call_attr(c_) in ("linearExpansionPercent",) for c_ in iter_calls(f.node)):
            okc = True  # delegates to another method that normalises
        r.require(okc, f"{c.name}.linearExpansionPercent:normalises-temperature", f, msg="the temperature must be normalised through getTk/getTc before use, otherwise Tc= callers and Tk= callers disagree")
        for c_ in conv:
            fn = (dotted(c_.func) or "").split(".")[-1]
            sig = {"getTk": ["Tc", "Tk"], "getTc": ["Tc", "Tk"]}[fn]
            got = {}
            for i, a_ in enumerate(c_.args):
                got[sig[i]] = norm(a_)
            for k in c_.keywords:
                got[k.arg] = norm(k.value)
            bad = {k: v for k, v in got.items() if v in ("Tk", "Tc") and v != k}
            r.require(not bad, f"{c.name}.linearExpansionPercent:{fn}-args", f, node=c_, msg=f"`{norm(c_)}` passes {bad}: Kelvin and Celsius swapped (signature is {fn}(Tc=None, Tk=None))")
    if n < 15:
        raise AnalysisError(f"only {n} linearExpansionPercent implementations found")


def r8_none_tests(idx, r, modules=None, floor=100):
    """0 degrees C (and 0 K) are temperatures. An optional temperature argument (default None) may only be
    compared with None; evaluating it for truth (`Tc or default`, `if not Tc`) treats an explicit 0.0 as absent."""
    from ..astutil import optional_params, truthiness_uses

    TEMPS = {"Tc", "Tk", "T0"}
    n = 0
    for m in idx.modules.values():
        if not m.name.startswith("armi.") or ".tests" in m.name:
            continue
        if modules is not None and not m.name.startswith(modules):
            continue
        for f in m.all_funcs():
            opt = optional_params(f.node) & TEMPS
            if not opt:
                continue
            n += 1
            uses = truthiness_uses(f.node, opt)
            key = f"{m.relpath.rsplit('/', 1)[-1]}:{f.qualname}"
            if uses:
                u = uses[0]
                r.violate(key, f, f"optional temperature `{u.id}` is evaluated for truth at line {u.lineno}: an explicit {u.id}=0.0 is treated as 'not given' "
                          "and another temperature is used instead; compare with `is None`", node=u)
            else:
                r.ok(key, f)
    if n < floor:
        raise AnalysisError(f"only {n} functions with optional temperature arguments found")


def r9_foreign_forwarding(idx, r):
    """A default temperature is per component ("my own current temperature"). When an optional Tc is handed on to
    ANOTHER object (a linked component, a child), it must still be the caller's argument - not a default already
    resolved from this object - or the other object is evaluated at this object's temperature."""
    from ..astutil import optional_params

    n = 0
    for m in idx.modules.values():
        if not (m.name.startswith("armi.reactor.components") or m.name in ("armi.reactor.blocks", "armi.reactor.composites")):
            continue
        for f in m.all_funcs():
            opt = optional_params(f.node) & {"Tc", "Tk"}
            if not opt:
                continue
            sites = []
            for c in iter_calls(f.node):
                if not isinstance(c.func, ast.Attribute):
                    continue
                root = c.func.value
                while isinstance(root, (ast.Attribute, ast.Subscript)):
                    root = root.value
                if isinstance(root, ast.Name) and root.id == "self" and not isinstance(c.func.value, ast.Subscript):
                    continue
                if isinstance(root, ast.Call):
                    continue  # super()
                for k in c.keywords:
                    if k.arg in opt and isinstance(k.value, ast.Name) and k.value.id == k.arg:
                        sites.append((c, k.arg))
            if not sites:
                continue

            def ev(node):
                out = []
                if isinstance(node, ast.Name) and isinstance(node.ctx, ast.Store) and node.id in opt:
                    out.append("set:" + node.id)
                return out
            fl = Flow(f.node, ev).run()
            for c, p in sites:
                n += 1
                st = fl.state_before(c) or {}
                r.require(st.get("set:" + p, (0, 0))[1] == 0, f"{m.relpath.rsplit('/', 1)[-1]}:{f.qualname}:{norm(c.func)[:50]}", f, node=c,
                          msg=f"`{p}` may already have been replaced by this object's own default when it is forwarded to `{norm(c.func.value)[:40]}`: "
                              f"the other object is then evaluated at this object's temperature instead of its own")
    if n < 3:
        raise AnalysisError(f"only {n} foreign forwarding sites found")


def r10_dependents_and_side_densities(idx, r):
    """(a) clearLinkedCache invalidates the cached volume of every component linked TO this one; the search must look at
    every dimension of every sibling - it may stop scanning a sibling only once a link to THIS component was found.
    (b) every side table of densities (detailedNDens, pinNDens) is rescaled whenever it is present - each under its own
    None-test only; an early exit keyed on one table must not skip the other."""
    f = idx.method(COMP, "getLinkedComponents")
    if f is None:
        raise AnchorMissing("Component.getLinkedComponents")
    loops = [n for n in walk_local(f.node) if isinstance(n, ast.For)]
    if len(loops) < 2:
        raise AnalysisError("getLinkedComponents: nested scan over siblings and their dimensions not found")
    exits = [n for n in walk_local(f.node) if isinstance(n, (ast.Break, ast.Return)) and not (isinstance(n, ast.Return) and n is f.node.body[-1])]
    for x in exits:
        conds = path_conditions(f.node, x)
        found = any(pol and "is self" in norm(t) for t, pol in conds)
        r.require(found, f"getLinkedComponents:{type(x).__name__.lower()}-only-after-match", f, node=x,
                  msg="the scan of a sibling's dimensions stops before a link to THIS component was found (e.g. after the first linked dimension, whoever it links to): "
                      "a sibling whose first link points elsewhere is missed and keeps a stale cached volume when this component expands")
    if not exits:
        r.ok("getLinkedComponents:exhaustive-scan", f)
    for owner, meth in ((COMP, "_changeOtherDensParamsByFactor"), ("armi.reactor.composites.ArmiObject", "changeNDensByFactor")):
        g = idx.method(owner, meth)
        if g is None:
            raise AnchorMissing(f"{owner}.{meth}")
        for fld in ("detailedNDens", "pinNDens"):
            aug = [n for n in walk_local(g.node) if isinstance(n, ast.AugAssign) and isinstance(n.op, ast.Mult) and norm(n.target) == f"self.p.{fld}"]
            if not aug:
                r.violate(f"{owner.rsplit('.', 1)[-1]}.{meth}:{fld}:scaled", g, f"`self.p.{fld}` is not multiplied by the factor")
                continue
            foreign = [(norm(t), pol) for t, pol in path_conditions(g.node, aug[0]) if fld not in norm(t)]
            r.require(not foreign, f"{owner.rsplit('.', 1)[-1]}.{meth}:{fld}:scaled-whenever-present", g, node=aug[0],
                      msg=f"`self.p.{fld}` is rescaled only when {foreign}: it must be rescaled whenever it is present, or pin / detailed densities stop following "
                          "the component's thermal expansion (mass per unit height of that table drifts)")


def r11_links_survive(idx, r):
    """(a) _getLinkedDimsAndValues() REMOVES the _DimensionLink parameters from the component (so a deepcopy / backup does not drag the linked
    component along) and returns them: every caller must hand them back to `self` on every normal path, or the component's linked
    dimension silently becomes the parameter default and no longer follows the component it was linked to.
    (b) clearLinkedCache drops the parent's cache and the cached volume of every linked component whenever there is a parent - under no
    other condition."""
    n = 0
    for m in idx.modules.values():
        if not m.name.startswith("armi.reactor") or ".tests" in m.name:
            continue
        for f in m.all_funcs():
            strips = [s for s in iter_stores(f.node) if isinstance(s.value, ast.Call) and dotted(s.value.func) == "self._getLinkedDimsAndValues" and isinstance(s.node, ast.Name)]
            bare = [c for c in iter_calls(f.node) if dotted(c.func) == "self._getLinkedDimsAndValues"]
            if not bare:
                continue
            n += 1
            # the links handed back are those just lifted out, or (restoreBackup) the ones a matching backUp saved on the component
            saved_pop = [norm(x.targets[0].elts[0]) for x in walk_local(f.node) if isinstance(x, ast.Assign) and isinstance(x.targets[0], ast.Tuple) and len(x.targets[0].elts) == 2
                         and norm(x.value).startswith("self._") and norm(x.targets[0].elts[1]) == norm(x.value)]
            if len(strips) != len(bare) and not saved_pop:
                r.violate(f"{f.qualname}:stripped-links-kept", f, "the stripped links are discarded (result of _getLinkedDimsAndValues not kept) and no saved links are re-installed", node=bare[0])
                continue
            var = strips[0].attr if strips else saved_pop[0]
            ok_args = {var} | set(saved_pop)

            def ev(nd, ok_args=ok_args):
                if isinstance(nd, ast.Call) and dotted(nd.func) == "self._restoreLinkedDims" and nd.args and norm(nd.args[0]) in ok_args:
                    return ["restored"]
                return []
            fl = Flow(f.node, ev).run()
            bad = [e for e in fl.normal_exits() if e.state.get("restored", (0, 0))[0] < 1]
            r.require(not bad, f"{f.qualname}:links-restored-on-self", f, node=(bad[0].node if bad and bad[0].node is not None else (strips[0].stmt if strips else bare[0])),
                      msg=f"{f.qualname} strips this component's dimension links and can return without self._restoreLinkedDims({var}): the linked dimension falls back to "
                          "its default and stops following the component it is linked to")
    if n < 3:
        raise AnalysisError(f"only {n} callers of _getLinkedDimsAndValues found")
    cl = idx.method(COMP, "clearLinkedCache")
    tgt = [s for s in iter_stores(cl.node) if norm(s.stmt) == "self.parent.cached = {}"] + [s for s in iter_stores(cl.node) if s.attr == "volume" and norm(s.value) == "None"]
    if len(tgt) < 2:
        raise AnchorMissing("clearLinkedCache: `self.parent.cached = {}` and `c.p.volume = None`")
    for s_ in tgt:
        conds = [(norm(t), p) for t, p in path_conditions(cl.node, s_.stmt)]
        HAS_PARENT = {("self.parent", True), ("self.parent is not None", True), ("self.parent is None", False)}
        r.require(all(c in HAS_PARENT for c in conds), f"clearLinkedCache:{s_.attr}:only-needs-parent", cl, node=s_.stmt,
                  msg=f"dropping the dependents' cached values is made conditional on {[c for c in conds if c not in HAS_PARENT]}: a linked component keeps a stale volume "
                      "while its linked dimension and area already follow the new temperature")
    loop = next((x for x in walk_local(cl.node) if isinstance(x, ast.For) and isinstance(x.iter, ast.Call) and dotted(x.iter.func) == "self.getLinkedComponents"), None)
    r.require(loop is not None and any(s_.stmt in loop.body for s_ in tgt), "clearLinkedCache:every-linked-component", cl, msg="the cached volume of every linked component must be dropped")


def r12_reference_states(idx, r):
    """(a) UnshapedComponent.fromComponent freezes a component at its present size: the copy's input temperature IS its hot temperature (no
    further expansion of the frozen area) and the area handed over is the present (hot) one - a cold area with the original input temperature
    would let the copy re-expand by the free-standing law, which a derived or linked shape does not follow.  (b) the values
    dissolveComponentIntoComponent writes into the solvent are hot dimensions read from the solute: every one of its setDimension calls on the
    solvent says cold=False (sibling agreement).  (c) the (input, hot) temperature pair is stored and read back in one order (shared with R04.2)."""
    f = idx.method("armi.reactor.components.UnshapedComponent", "fromComponent")
    mk = next((c for c in iter_calls(f.node) if dotted(c.func) == "UnshapedComponent"), None)
    if mk is None:
        raise AnchorMissing("UnshapedComponent.fromComponent: UnshapedComponent(...)")
    kw = {k.arg: k.value for k in mk.keywords}
    other = f.params()[-1]
    r.require("Tinput" in kw and "Thot" in kw and norm(kw["Tinput"]) == norm(kw["Thot"]) == f"{other}.temperatureInC", "fromComponent:frozen-at-the-present-temperature", f, node=mk,
              msg=f"Tinput={norm(kw.get('Tinput', ast.Constant(None)))}, Thot={norm(kw.get('Thot', ast.Constant(None)))}: the frozen copy must take the present temperature for both, or it expands "
                  "again from a reference state the original (a derived shape, a component with linked dimensions) never had")
    a = kw.get("area")
    r.require(a is not None and isinstance(a, ast.Call) and call_attr(a) in ("getComponentArea", "getArea") and not any(k.arg == "cold" and norm(k.value) == "True" for k in a.keywords), "fromComponent:present-area", f, node=mk,
              msg="the area frozen into the copy must be the component's present (hot) area")
    g = idx.method("armi.reactor.converters.blockConverters.BlockConverter", "dissolveComponentIntoComponent")
    sets = [c for c in iter_calls(g.node) if call_attr(c) == "setDimension" and norm(c.func.value) == "solvent"]
    if len(sets) < 3:
        raise AnchorMissing("dissolveComponentIntoComponent: the solvent.setDimension calls")
    for n_, c in enumerate(sets):
        r.require(any(k.arg == "cold" and norm(k.value) == "False" for k in c.keywords), f"dissolve:solvent-dimension-{n_}:hot-value-stored-as-hot", g, node=c,
                  msg=f"`{norm(c)}` stores a hot dimension (read from the solute at temperature, or the documented hot minimum inner diameter) as a COLD value: the solvent then expands it once more")
    from .c04 import r2_parallel_arrays
    r2_parallel_arrays(idx, r)


def r13_links_name_their_target(idx, r):
    """(a) Component.setLink(key, otherComp, otherCompKey) stores, under `key`, a link to dimension `otherCompKey` of `otherComp`: each of the
    three parameters has its own place.  A link built with `key` in the place of `otherCompKey` follows the same-named dimension of the
    neighbour (bond.id -> fuel.id instead of fuel.od).  (b) every dimension can hold a link, so the routine that sets links aside before a
    backup scans all of DIMENSION_NAMES (rule shared with C16)."""
    from .c16 import link_scan_rule
    f = idx.method(COMP, "setLink")
    ps = f.params()
    if len(ps) != 4:
        raise AnchorMissing("Component.setLink(key, otherComp, otherCompKey)")
    _self, key, other, otherKey = ps
    sts = [s_ for s_ in iter_stores(f.node) if s_.kind == "subscript" and norm(s_.node.value) == "self.p"]
    if len(sts) != 1:
        raise AnchorMissing("setLink: the store into self.p")
    st = sts[0]
    link = [c for c in ast.walk(st.value) if isinstance(c, ast.Call) and "DimensionLink" in norm(c.func)]
    ok = norm(st.node.slice) == key and len(link) == 1 and link[0].args and isinstance(link[0].args[0], ast.Tuple) and [norm(x) for x in link[0].args[0].elts] == [other, otherKey]
    r.require(ok, "setLink:stores-(otherComp, otherCompKey)-under-key", f, node=st.stmt,
              msg=f"`{norm(st.stmt)[:90]}` does not store the link ({other}, {otherKey}) under {key}: the dimension follows another dimension of the neighbour than the one asked for")
    link_scan_rule(idx, r)


def r14_pairing(idx, r):
    from ..pairing import pairing_rule
    pairing_rule(idx, r, ["armi.reactor.components", "armi.reactor.converters.blockConverters", "armi.materials.material"], 80)


def r15_expanding_dims_and_links(idx, r):
    """(a) a shape that narrows THERMAL_EXPANSION_DIMS keeps every dimension of its parent's set that it still stores (`_linkAndStoreDimensions`):
    a Square that stores lengthOuter / lengthInner but lists only the widths stops expanding its lengths, and whatever is linked to them.
    (b) resolveLinkedDims turns EVERY `component.dimension` string into a live link - whatever the dimension is called: a link to `mult`
    resolved to today's number does not follow a later change of the other component."""
    comp = idx.cls(COMP)

    def own_set(c):
        for st in c.node.body:
            if isinstance(st, ast.Assign) and any(norm(t) == "THERMAL_EXPANSION_DIMS" for t in st.targets) and isinstance(st.value, (ast.Set, ast.Dict)):
                return {e.value for e in getattr(st.value, "elts", []) if isinstance(e, ast.Constant)}
        return None
    n = 0
    for c in idx.subclasses(comp):
        mine = own_set(c)
        init = c.methods.get("__init__")
        if mine is None or init is None:
            continue
        stored = {k.arg for call in iter_calls(init.node) if call_attr(call) == "_linkAndStoreDimensions" for k in call.keywords if k.arg}
        anc = next((own_set(a) for a in c.mro()[1:] if own_set(a)), None)
        if not anc:
            continue
        n += 1
        miss = sorted((anc & stored) - mine)
        r.require(not miss, f"{c.name}:keeps-the-expanding-dimensions-it-stores", c, node=c.node,
                  msg=f"{c.name} stores {miss} (expanding dimensions of its parent shape) but leaves them out of its own THERMAL_EXPANSION_DIMS: they stay at their input value when the component is heated")
    if n < 3:
        raise AnchorMissing("shapes that narrow THERMAL_EXPANSION_DIMS below a parent shape")
    f = idx.method(COMP, "resolveLinkedDims")
    sts = [s_ for s_ in iter_stores(f.node) if s_.kind == "subscript" and norm(s_.node.value) == "self.p"]
    links = [s_ for s_ in sts if s_.value is not None and "_DimensionLink" in norm(s_.value)]
    if not links:
        raise AnchorMissing("resolveLinkedDims: the _DimensionLink store")
    matchvars = {y.id for s_ in links for y in ast.walk(s_.value) if isinstance(y, ast.Name)}
    for s_ in sts:
        if not (matchvars & {y.id for y in ast.walk(s_.value) if isinstance(y, ast.Name)}) and s_ not in links:
            continue
        conds = [norm(t) for t, _p in path_conditions(f.node, s_.stmt) if matchvars & {y.id for y in ast.walk(t) if isinstance(y, ast.Name)}]
        r.require(s_ in links and not conds, "resolveLinkedDims:every-link-stays-a-link", f, node=s_.stmt,
                  msg=f"`{norm(s_.stmt)[:70]}` (under {conds}) stores something else than a live link for a `component.dimension` input: the value is frozen at construction and no longer follows the other component")

VALUE_READS = {"getDimension", "resolveDimension", "getBoundingCircleOuterDiameter", "getCircleInnerDiameter"}


def _is_link_ctor(c):
    d = dotted(c.func) or ""
    return d.split(".")[-1] == "_DimensionLink"


def r16_links_are_retargeted(idx, r):
    """What a dimension is linked to is a structural fact of the block, not a function of today's numbers: two boundaries that
    coincide at one temperature part as soon as either component is heated.
    (a) re-targeting loops.  `owner.getDimensionNamesLinkedTo(gone)` is the inventory [(dim, dimOfOther), ...] of owner's links to a
    component that is being taken out (dissolved into a neighbour).  A loop over that inventory that re-links at all must, on EVERY
    path of EVERY iteration, pass through `owner.setLink(dim, <replacement>, dimOfOther)` - the pair of the iteration at the parameters
    (key, otherCompKey) of setLink, a replacement other than `gone` at otherComp - and may not leave the loop early: a pair that is
    skipped stays linked to the removed component and no longer follows the boundary it borders.
    (b) every link-establishing site (a `.setLink(...)` call, a `_DimensionLink(...)` construction) is reached under conditions that do
    not read a dimension's present value (getDimension / resolveDimension / bounding diameters), directly or through a temporary."""
    loops = 0
    sites = 0
    for m in idx.modules.values():
        if not m.name.startswith("armi.") or ".tests" in m.name:
            continue
        if "setLink" not in m.src and "_DimensionLink" not in m.src and "getDimensionNamesLinkedTo" not in m.src:
            continue
        for f in m.all_funcs():
            calls = list(iter_calls(f.node))
            est = [c for c in calls if call_attr(c) == "setLink" or _is_link_ctor(c)]
            inv = [c for c in calls if call_attr(c) == "getDimensionNamesLinkedTo"]
            if not est and not inv:
                continue
            env = single_assign_env(f.node)
            where = f"{m.relpath.rsplit('/', 1)[-1]}:{f.qualname}"
            # (b) no link decision on present values
            for c in est:
                sites += 1
                reads = []
                for t, pol in path_conditions(f.node, c):
                    tt = propagate(t, env)
                    if any(isinstance(x, ast.Call) and call_attr(x) in VALUE_READS for x in ast.walk(tt)):
                        reads.append(("" if pol else "not ") + norm(tt)[:120])
                what = "setLink" if call_attr(c) == "setLink" else "_DimensionLink"
                r.require(not reads, f"{where}:{what}:not-decided-by-present-values", f, node=c,
                          msg=f"the link `{norm(c)[:70]}` is established only when {reads}: whether a dimension is linked (and to what) is decided by comparing present dimension "
                              "values; for the inputs where the numbers happen to coincide the link is not made, and the dimension stops following its neighbour at the next temperature change")
            # (a) every pair of the inventory is re-targeted
            for loop in [x for x in walk_local(f.node) if isinstance(x, ast.For)]:
                it = propagate(loop.iter, env)
                if not (isinstance(it, ast.Call) and call_attr(it) == "getDimensionNamesLinkedTo"):
                    continue
                gone = get_arg(it, 0, "otherComponent")
                if gone is None:
                    raise AnalysisError(f"{where}: getDimensionNamesLinkedTo without its component")
                gone, owner = norm(gone), norm(it.func.value)
                tg = loop.target
                if isinstance(tg, (ast.Tuple, ast.List)) and len(tg.elts) == 2 and all(isinstance(e, ast.Name) for e in tg.elts):
                    a, b = tg.elts[0].id, tg.elts[1].id
                elif isinstance(tg, ast.Name):
                    a, b = f"{tg.id}[0]", f"{tg.id}[1]"
                else:
                    raise AnalysisError(f"{where}: loop over the link inventory does not bind (dimension, dimension of the other component)")
                inner = [c for c in iter_calls(loop) if call_attr(c) == "setLink"]
                if not inner:
                    r.undecided(f"{where}:inventory-of-links-to-{gone}:read-only", f, "the inventory of links is read without re-linking", node=loop)
                    continue
                loops += 1
                pe = {k: v for k, v in env.items() if k not in (a, b)}

                def good(c, a=a, b=b, owner=owner, gone=gone, pe=pe):
                    if call_attr(c) != "setLink":
                        return False
                    k, oc, ok_ = get_arg(c, 0, "key"), get_arg(c, 1, "otherComp"), get_arg(c, 2, "otherCompKey")
                    if k is None or oc is None or ok_ is None:
                        return False
                    return (norm(propagate(c.func.value, pe)) == owner and norm(propagate(k, pe)) == a and norm(propagate(ok_, pe)) == b
                            and norm(propagate(oc, pe)) != gone)

                key = f"{where}:every-link-to-{gone}-is-moved"
                wrong = [c for c in inner if not good(c)]
                if wrong:
                    r.violate(key, f, f"`{norm(wrong[0])[:90]}` does not move {owner}'s link ({a} -> {gone}.{b}) to the same dimension {b} of a replacement of {gone} "
                                      f"(setLink(key, otherComp, otherCompKey)): the dimension follows another boundary than the one it borders", node=wrong[0])
                    continue

                def ev(nd):
                    return ["relinked"] if isinstance(nd, ast.Call) and good(nd) else []
                fl = Flow(f.node, ev, body=loop.body).run()
                bad = [e for e in fl.exits if e.kind in ("break", "return") or (e.kind in ("fall", "continue") and e.state.get("relinked", (0, 0))[0] < 1)]
                if not bad:
                    r.ok(key, f, node=loop)
                    continue
                e = bad[0]
                under = []
                if e.node is not None:
                    under = [("" if pol else "not ") + norm(propagate(t, env))[:110] for t, pol in path_conditions(f.node, e.node)
                             if any(x is t for x in ast.walk(loop))]
                how = {"continue": "goes on to the next pair", "fall": "ends", "break": "leaves the loop", "return": "returns"}[e.kind]
                r.violate(key, f, f"an iteration over {owner}'s dimensions linked to {gone} {how}" + (f" when {under}" if under else "") + f" without {owner}.setLink({a}, <replacement>, {b}) "
                                  f"(or before the remaining pairs): that dimension stays linked to the component being removed - it equals the replacement's boundary at most at "
                                  f"the present temperature and no longer follows it when the replacement is heated or cooled", node=e.node if e.node is not None else loop)
    if loops < 1:
        raise AnchorMissing("a loop over getDimensionNamesLinkedTo(<removed component>) that re-links (BlockConverter.restablishLinks)")
    if sites < 4:
        raise AnchorMissing(f"only {sites} link-establishing sites (setLink calls, _DimensionLink constructions) found")


def run(idx, chk):
    chk.explanation = (
        "C03: every two-dimensional shape's area formula is typed in the free abelian group generated by the linear expansion factor L "
        "(getDimension(d) : L if d in THERMAL_EXPANSION_DIMS else 1) and must have degree exactly 2 - a proof of 'area grows by the square' for "
        "all dimension values; forwarding of Tc/cold; dimension tables; order in getDimension/setDimension; setTemperature sequence; "
        "linearExpansionFactor's exact rational normal form (1+f = phi(T)/phi(T0)) and (1+f)^-2 density reduction for every solid override; "
        "signature and temperature normalisation of every linearExpansionPercent. Correlation values and finiteness are NOT decided."
    )
    chk.undecided_clauses = ["finite/positive values over each material's range", "correctness of each material correlation"]
    chk.run_rule("R03.1", "every 2-D area formula is homogeneous of degree 2 in its thermally expanding dimensions", lambda r: r1_area_homogeneity(idx, r), floor=11, necessary="area grows by the square of the linear expansion factor")
    chk.run_rule("R03.2", "expanding dimensions are read with both Tc and cold forwarded", lambda r: r2_forwarding(idx, r), floor=30, necessary="an area 'at Tc' must not mix temperatures")
    chk.run_rule("R03.3", "THERMAL_EXPANSION_DIMS are stored dimensions; get/setDimension consult the same table with inverse operations", lambda r: r3_tables(idx, r), floor=13, necessary="hot = cold x factor and setting a hot value reads back")
    chk.run_rule("R03.4", "getDimension resolves links first, returns cold/non-expanding values unchanged, else factor x cold; links and setDimension forward unconverted", lambda r: r4_getdimension(idx, r), floor=10,
                 necessary="a linked dimension always equals the other component's current dimension; fluids keep their dimensions")
    chk.run_rule("R03.5", "setTemperature: previous T read, new T stored, density factor (prev,new), densities scaled, caches cleared - once each on every path", lambda r: r5_settemperature(idx, r), floor=5, necessary="mass per unit height is conserved at every temperature change")
    chk.run_rule("R03.6", "1+f(T,T0) is the ratio (100+p(T))/(100+p(T0)); every solid's density reduction is (1+f)^-2 of that same f", lambda r: r6_path_independence(idx, r), floor=4, necessary="the end state depends only on the final temperature; mass conserved")
    chk.run_rule("R03.7", "every linearExpansionPercent keeps (self, Tk=None, Tc=None) and normalises its temperature through getTk/getTc", lambda r: r7_materials(idx, r), floor=35, necessary="component code calls with Tc=; a K/C mix-up breaks every factor")
    chk.run_rule("R03.8", "optional temperature arguments (Tc/Tk/T0 = None) are only compared with None, never evaluated for truth", lambda r: r8_none_tests(idx, r), floor=100,
                 necessary="'at temperature T' holds for every T in range, 0 degrees C included")
    chk.run_rule("R03.9", "an optional Tc forwarded to another object is still the caller's argument (no local default resolved before)", lambda r: r9_foreign_forwarding(idx, r), floor=3,
                 necessary="a linked dimension follows the linked component at ITS temperature")
    chk.run_rule("R03.10", "the search for linked dependents is exhaustive; every density side table is rescaled whenever present", lambda r: r10_dependents_and_side_densities(idx, r), floor=5,
                 necessary="mass per unit height of every component is conserved at every temperature change; linked components follow")
    chk.run_rule("R03.11", "stripped dimension links are handed back to the component on every path; clearLinkedCache drops dependents whenever a parent exists", lambda r: r11_links_survive(idx, r), floor=6,
                 necessary="a linked dimension follows the component it is linked to, before and after copies, backups and temperature changes")
    chk.run_rule("R03.12", "frozen copies take the present state as reference; dissolved dimensions are stored hot; (Tinput, Thot) stored and read in one order", lambda r: r12_reference_states(idx, r), floor=6,
                 necessary="a dimension at temperature T is the cold dimension times the expansion factor between the component's OWN input temperature and T")
    chk.run_rule("R03.13", "setLink stores the link (otherComp, otherCompKey) under key; links are looked for in every dimension", lambda r: r13_links_name_their_target(idx, r), floor=2,
                 necessary="a linked dimension equals the current dimension of the component and dimension it was linked to")
    chk.run_rule("R03.14", "arguments stand at the parameter they are named after; sibling calls forward the same pass-through parameters", lambda r: r14_pairing(idx, r), floor=1,
                 necessary="temperatures and dimensions are handed to the parameter they belong to")
    chk.run_rule("R03.15", "a narrowed expansion table keeps the parent's dimensions it stores; every dimension link stays a link", lambda r: r15_expanding_dims_and_links(idx, r), floor=4,
                 necessary="every thermally expanding dimension scales with the expansion factor; a linked dimension equals the other component's current one")
    chk.run_rule("R03.16", "when a component is taken out, every dimension linked to it is re-linked to its replacement on every path; no link is decided by present dimension values", lambda r: r16_links_are_retargeted(idx, r), floor=5,
                 necessary="a linked dimension equals the CURRENT dimension of the component it borders at every later temperature, not only at the temperature of the conversion")
