"""E1 - syntax-directed forward dataflow over one function: event counting on all paths.

State  : fact -> (lo, hi)   lo = minimum number of occurrences on any path reaching this point,
                            hi = maximum (capped at CAP = "many").
Join   : (min lo, max hi).  must(fact) <=> lo >= 1;  at_most_once(fact) <=> hi <= 1.
Events : a callback maps an AST node (expression or statement) to the facts it produces; it is
         called for every node in *evaluation order*.  Short-circuit operands, conditional
         expressions and comprehension bodies are conditional (they raise hi but not lo).

This decides must-pass-through / dominance / ordering / exactly-once rules for the structured
statements armi uses (if/for/while(+else)/try/with/return/raise/break/continue/assert).  Calls are
not assumed to raise unless the rule's `raises` callback says so.  `match` is rejected.
"""
from __future__ import annotations

import ast
from dataclasses import dataclass
from typing import Callable, Dict, Iterable, List, Optional, Tuple

from .index import AnalysisError, norm

CAP = 2
State = Dict[str, Tuple[int, int]]


def join(a: Optional[State], b: Optional[State]) -> Optional[State]:
    if a is None:
        return None if b is None else dict(b)
    if b is None:
        return dict(a)
    out = {}
    for k in set(a) | set(b):
        la, ha = a.get(k, (0, 0))
        lb, hb = b.get(k, (0, 0))
        out[k] = (min(la, lb), max(ha, hb))
    return out


def add(st: State, fact: str, conditional=False) -> State:
    lo, hi = st.get(fact, (0, 0))
    st = dict(st)
    st[fact] = (lo if conditional else min(lo + 1, CAP), min(hi + 1, CAP))
    return st


@dataclass
class Exit:
    kind: str  # 'return' | 'fall' | 'raise'
    node: Optional[ast.AST]
    state: State

    @property
    def line(self):
        return getattr(self.node, "lineno", None)


class Flow:
    def __init__(
        self,
        func: ast.AST,
        events: Callable[[ast.AST], Iterable[str]],
        raises: Optional[Callable[[ast.AST], bool]] = None,
        body: Optional[List[ast.stmt]] = None,
        assert_raises: bool = False,
        assume: Optional[Callable[[ast.AST], Optional[bool]]] = None,
        handler_from_entry: bool = False,
    ):
        # handler_from_entry: an except-handler is analysed as an alternative to the WHOLE try body
        # (the failure is assumed to happen before the body had any effect)
        self.handler_from_entry = handler_from_entry
        if assume is not None:
            _a = assume

            def assume(t, _a=_a):  # an assumption about T is also one about `not T` (guard clauses: `if not T: return`)
                neg = False
                while isinstance(t, ast.UnaryOp) and isinstance(t.op, ast.Not):
                    k = _a(t)
                    if k is not None:
                        return k != neg
                    t, neg = t.operand, not neg
                k = _a(t)
                return None if k is None else (k != neg)
        self.assume = assume
        self.func = func
        self.events = events
        self.raises = raises
        self.body = body if body is not None else func.body
        self.exits: List[Exit] = []
        self.before: Dict[int, State] = {}  # id(node) -> state just before the node's own events
        self.after: Dict[int, State] = {}
        self._loops: List[dict] = []
        self._tries: List[dict] = []
        self.assert_raises = assert_raises
        self.end_state: Optional[State] = None

    # ------------------------------------------------------------------ public
    def run(self, init: Optional[State] = None) -> "Flow":
        out = self._stmts(self.body, dict(init or {}))
        self.end_state = out
        if out is not None:
            self.exits.append(Exit("fall", None, out))
        return self

    def normal_exits(self) -> List[Exit]:
        return [e for e in self.exits if e.kind in ("return", "fall")]

    def iteration_ends(self) -> List[State]:
        """For a loop body analysed on its own: states at the end of an iteration (fall-through or continue)."""
        return [e.state for e in self.exits if e.kind in ("fall", "continue")]

    def must_at_normal_exits(self, fact: str) -> List[Exit]:
        """Normal exits that can be reached without `fact` having occurred."""
        return [e for e in self.normal_exits() if e.state.get(fact, (0, 0))[0] < 1]

    def state_before(self, node: ast.AST) -> Optional[State]:
        return self.before.get(id(node))

    # ------------------------------------------------------------------ expressions
    def _fire(self, node: ast.AST, st: State, conditional=False) -> State:
        prev = self.before.get(id(node))
        self.before[id(node)] = st if prev is None else join(prev, st)
        for f in self.events(node) or ():
            st = add(st, f, conditional)
        return st

    def _cond(self, node: ast.AST, st: State) -> State:
        """Evaluate node as 'may or may not execute'."""
        return join(st, self._expr(node, st))

    def _expr(self, n: Optional[ast.AST], st: State) -> State:
        if n is None:
            return st
        if isinstance(n, ast.BoolOp):
            st = self._expr(n.values[0], st)
            for v in n.values[1:]:
                st = self._cond(v, st)
            return self._fire(n, st)
        if isinstance(n, ast.IfExp):
            st = self._expr(n.test, st)
            st = join(self._expr(n.body, st), self._expr(n.orelse, st))
            return self._fire(n, st)
        if isinstance(n, (ast.ListComp, ast.SetComp, ast.GeneratorExp, ast.DictComp)):
            st = self._expr(n.generators[0].iter, st)
            inner = st
            for _ in range(2):  # zero-or-more executions of the element
                s = inner
                for i, g in enumerate(n.generators):
                    if i > 0:
                        s = self._expr(g.iter, s)
                    for c in g.ifs:
                        s = self._expr(c, s)
                if isinstance(n, ast.DictComp):
                    s = self._expr(n.key, s)
                    s = self._expr(n.value, s)
                else:
                    s = self._expr(n.elt, s)
                inner = join(inner, s)
            return self._fire(n, join(st, inner))
        if isinstance(n, ast.Lambda):
            return self._fire(n, st)
        if isinstance(n, ast.Call):
            st = self._expr(n.func, st)
            for a in n.args:
                st = self._expr(a, st)
            for k in n.keywords:
                st = self._expr(k.value, st)
            st = self._fire(n, st)
            if self.raises is not None and self.raises(n):
                self._raise(n, st)
            return st
        if isinstance(n, ast.NamedExpr):
            st = self._expr(n.value, st)
            return self._fire(n, st)
        for c in ast.iter_child_nodes(n):
            if isinstance(c, ast.expr):
                st = self._expr(c, st)
            elif isinstance(c, ast.keyword):
                st = self._expr(c.value, st)
        return self._fire(n, st)

    # ------------------------------------------------------------------ statements
    def _raise(self, node, st):
        for t in reversed(self._tries):
            if t["active"]:
                t["raised"] = join(t["raised"], st) if t["raised"] is not None else dict(st)
                if t["catch_all"]:
                    return
        self._record_exit(Exit("raise", node, st))

    def _record_exit(self, e: Exit):
        # exits inside try..finally run the finally body first
        for t in reversed(self._tries):
            if t["finalbody"] and not t["in_final"]:
                t["in_final"] = True
                s = self._stmts(t["finalbody"], e.state)
                t["in_final"] = False
                if s is None:
                    return
                e = Exit(e.kind, e.node, s)
        self.exits.append(e)

    def _stmts(self, body: List[ast.stmt], st: Optional[State]) -> Optional[State]:
        for s in body:
            if st is None:
                return None
            st = self._stmt(s, st)
            if st is not None:
                for t in self._tries:
                    if t["active"]:
                        t["seen"] = join(t["seen"], st)
        return st

    def _stmt(self, s: ast.stmt, st: State) -> Optional[State]:
        prev = self.before.get(id(s))
        self.before[id(s)] = st if prev is None else join(prev, st)
        r = self._stmt_inner(s, st)
        if r is not None:
            pa = self.after.get(id(s))
            self.after[id(s)] = r if pa is None else join(pa, r)
        return r

    def _stmt_inner(self, s: ast.stmt, st: State) -> Optional[State]:
        if isinstance(s, ast.Expr):
            return self._expr(s.value, st)
        if isinstance(s, ast.Assign):
            st = self._expr(s.value, st)
            for t in s.targets:
                st = self._expr(t, st)
            return self._fire_stmt(s, st)
        if isinstance(s, ast.AugAssign):
            st = self._expr(s.value, st)
            st = self._expr(s.target, st)
            return self._fire_stmt(s, st)
        if isinstance(s, ast.AnnAssign):
            st = self._expr(s.value, st)
            st = self._expr(s.target, st)
            return self._fire_stmt(s, st)
        if isinstance(s, ast.Delete):
            for t in s.targets:
                st = self._expr(t, st)
            return self._fire_stmt(s, st)
        if isinstance(s, ast.Return):
            st = self._expr(s.value, st)
            st = self._fire_stmt(s, st)
            self._record_exit(Exit("return", s, st))
            return None
        if isinstance(s, ast.Raise):
            st = self._expr(s.exc, st)
            st = self._expr(s.cause, st)
            st = self._fire_stmt(s, st)
            self._raise(s, st)
            return None
        if isinstance(s, ast.Assert):
            st = self._expr(s.test, st)
            st = self._fire_stmt(s, st)
            if self.assert_raises:
                self._raise(s, st)
            return st
        if isinstance(s, ast.If):
            st = self._expr(s.test, st)
            st = self._fire_stmt(s, st)
            known = self.assume(s.test) if self.assume is not None else None
            if known is True:
                return self._stmts(s.body, st)
            if known is False:
                return self._stmts(s.orelse, st)
            a = self._stmts(s.body, st)
            b = self._stmts(s.orelse, st)
            if a is None and b is None:
                return None
            return join(a, b)
        if isinstance(s, (ast.For, ast.AsyncFor)):
            st = self._expr(s.iter, st)
            st = self._fire_stmt(s, st)
            return self._loop(s, st, test=None)
        if isinstance(s, ast.While):
            return self._loop(s, self._fire_stmt(s, st), test=s.test)
        if isinstance(s, (ast.With, ast.AsyncWith)):
            for it in s.items:
                st = self._expr(it.context_expr, st)
                st = self._expr(it.optional_vars, st)
            st = self._fire_stmt(s, st)
            return self._stmts(s.body, st)
        if isinstance(s, ast.Try) or s.__class__.__name__ == "TryStar":
            return self._try(s, st)
        if isinstance(s, ast.Break):
            if not self._loops:  # analysing a loop body on its own: leaving the loop early
                self.exits.append(Exit("break", s, st))
                return None
            L = self._loops[-1]
            L["breaks"] = join(L["breaks"], st) if L["breaks"] is not None else dict(st)
            return None
        if isinstance(s, ast.Continue):
            if not self._loops:  # analysing a loop body on its own: end of this iteration
                self.exits.append(Exit("continue", s, st))
                return None
            L = self._loops[-1]
            L["continues"] = join(L["continues"], st) if L["continues"] is not None else dict(st)
            return None
        if isinstance(s, (ast.FunctionDef, ast.AsyncFunctionDef, ast.ClassDef, ast.Pass, ast.Global, ast.Nonlocal, ast.Import, ast.ImportFrom)):
            return self._fire_stmt(s, st)
        if s.__class__.__name__ == "Match":
            raise AnalysisError("match statement not supported by the flow engine")
        raise AnalysisError(f"unsupported statement {s.__class__.__name__}")

    def _fire_stmt(self, s, st):
        for f in self.events(s) or ():
            st = add(st, f)
        return st

    def _loop(self, s, st0: State, test) -> Optional[State]:
        infinite = test is not None and isinstance(test, ast.Constant) and bool(test.value)
        L = {"breaks": None, "continues": None}
        self._loops.append(L)
        head = st0
        exit_normal = None
        for _ in range(CAP + 2):
            h = self._expr(test, head) if test is not None else head
            exit_normal = join(exit_normal, h) if exit_normal is not None else dict(h)
            L["continues"] = None
            out = self._stmts(s.body, h)
            out = join(out, L["continues"]) if (out is not None or L["continues"] is not None) else None
            new_head = join(head, out) if out is not None else head
            if new_head == head:
                break
            head = new_head
        self._loops.pop()
        if infinite:
            after = None
        else:
            h = self._expr(test, head) if test is not None else head
            after = self._stmts(s.orelse, join(exit_normal, h))
        if L["breaks"] is not None:
            after = join(after, L["breaks"]) if after is not None else dict(L["breaks"])
        return after

    def _try(self, s, st: State) -> Optional[State]:
        def catches_all(h):
            if h.type is None:
                return True
            names = [norm(h.type)] if not isinstance(h.type, ast.Tuple) else [norm(e) for e in h.type.elts]
            return any(n in ("Exception", "BaseException") for n in names)

        T = {
            "active": bool(s.handlers),
            "seen": dict(st),
            "raised": None,
            "catch_all": any(catches_all(h) for h in s.handlers),
            "finalbody": list(s.finalbody),
            "in_final": False,
        }
        self._tries.append(T)
        body_out = self._stmts(s.body, st)
        T["active"] = False
        outs = []
        if body_out is not None:
            outs.append(self._stmts(s.orelse, body_out))
        if s.handlers:
            h_in = join(T["seen"], T["raised"]) if T["raised"] is not None else T["seen"]
            if self.handler_from_entry:
                h_in = dict(st)
            for h in s.handlers:
                outs.append(self._stmts(h.body, h_in))
        self._tries.pop()
        res = None
        for o in outs:
            if o is not None:
                res = join(res, o) if res is not None else dict(o)
        if s.finalbody and res is not None:
            res = self._stmts(s.finalbody, res)
        return res


# ---------------------------------------------------------------------------------------------
# helpers on top of Flow


def analyze(func_node, events, **kw) -> Flow:
    return Flow(func_node, events, **kw).run()


def always_exits(body: List[ast.stmt]) -> bool:
    """True when a statement list cannot fall through (ends in return/raise/continue/break on all paths)."""
    f = Flow(ast.parse("def _():\n pass").body[0], lambda n: (), body=body)
    f._loops.append({"breaks": None, "continues": None})
    return f._stmts(body, {}) is None


def path_conditions(func_node: ast.AST, target: ast.AST) -> List[Tuple[ast.AST, bool]]:
    """Conditions known to hold whenever `target` executes, from the structure of the function:
    (test, True) for an enclosing `if test:` body / while body / IfExp body / `and` operand,
    (test, False) for an enclosing else-branch / `or` operand, and (test, False) for every
    earlier sibling `if test: <never falls through>` in an enclosing statement list."""
    conds: List[Tuple[ast.AST, bool]] = []
    path = _path_to(func_node, target)
    if path is None:
        raise AnalysisError("node not in function")
    for parent, field, idx, child in path:
        if isinstance(parent, ast.If):
            if field == "body":
                conds.append((parent.test, True))
            elif field == "orelse":
                conds.append((parent.test, False))
        elif isinstance(parent, ast.While) and field == "body":
            conds.append((parent.test, True))
        elif isinstance(parent, ast.IfExp):
            if field == "body":
                conds.append((parent.test, True))
            elif field == "orelse":
                conds.append((parent.test, False))
        elif isinstance(parent, ast.BoolOp) and field == "values" and idx:
            for v in parent.values[:idx]:
                conds.append((v, isinstance(parent.op, ast.And)))
        if isinstance(idx, int) and field in ("body", "orelse", "finalbody") and isinstance(getattr(parent, field), list):
            for sib in getattr(parent, field)[:idx]:
                if isinstance(sib, ast.If) and not sib.orelse and always_exits(sib.body):
                    conds.append((sib.test, False))
                elif isinstance(sib, ast.If) and sib.orelse and always_exits(sib.body) and not always_exits(sib.orelse):
                    conds.append((sib.test, False))
                elif isinstance(sib, ast.If) and sib.orelse and always_exits(sib.orelse) and not always_exits(sib.body):
                    conds.append((sib.test, True))
    # polarity-normal form: a condition is never a top-level `not X`; (not X, p) is reported as (X, not p), so the two
    # spellings `if not c: A else: B` / `if c: B else: A` give identical path conditions
    out = []
    for t, p in conds:
        while isinstance(t, ast.UnaryOp) and isinstance(t.op, ast.Not):
            t, p = t.operand, not p
        out.append((t, p))
    return out


def _path_to(root: ast.AST, target: ast.AST):
    """List of (parent, field, index, child) from root down to target."""
    for field, value in ast.iter_fields(root):
        if isinstance(value, list):
            for i, v in enumerate(value):
                if v is target:
                    return [(root, field, i, v)]
                if isinstance(v, ast.AST):
                    p = _path_to(v, target)
                    if p is not None:
                        return [(root, field, i, v)] + p
        elif isinstance(value, ast.AST):
            if value is target:
                return [(root, field, None, value)]
            p = _path_to(value, target)
            if p is not None:
                return [(root, field, None, value)] + p
    return None
