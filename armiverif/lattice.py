"""Exact extraction of the hex lattice objects shared by C07/C08/C13: unit-step matrices in
Q(sqrt3)[pitch], neighbour offsets, decision trees of index maps, the 13 sign classes of the
(i, j, i+j) arrangement."""
from __future__ import annotations

import ast
from typing import Dict, List, Tuple

from .astutil import propagate, single_assign_env, walk_local
from .exprnf import SQRT3, ExprEval, Poly, Q3, matvec, poly, q3, rot
from .index import AnalysisError, AnchorMissing, dotted, norm

HEX = "armi.reactor.grids.hexagonal.HexGrid"


def hex_consts(idx):
    m = idx.module("armi.utils.hexagon")
    c = {}
    if "SQRT3" in m.consts:
        v = ExprEval().ev(m.consts["SQRT3"]).const_value()
        if v is None or not (v == SQRT3):
            raise AnalysisError(f"hexagon.SQRT3 is `{norm(m.consts['SQRT3'])}`, not sqrt(3)")
        c["SQRT3"] = Poly.const(SQRT3)
        c["hexagon.SQRT3"] = Poly.const(SQRT3)
    return c


def helper_inliner(idx):
    """inline one-line helpers of armi.utils.hexagon (side, pitch, area)."""
    m = idx.module("armi.utils.hexagon")
    consts = hex_consts(idx)

    def calls(node, ev):
        d = dotted(node.func)
        if d and d.startswith("hexagon.") and d.split(".")[1] in m.functions and not node.keywords:
            f = m.functions[d.split(".")[1]]
            body = [s for s in f.node.body if not (isinstance(s, ast.Expr) and isinstance(s.value, ast.Constant))]
            if len(body) == 1 and isinstance(body[0], ast.Return):
                env = {p: ev.ev(a) for p, a in zip(f.params(), node.args)}
                return ExprEval(env=env, consts=consts, opaque=False).ev(body[0].value)
        return None
    return calls, consts


def unit_steps(idx) -> Dict[bool, List[List[Poly]]]:
    """{cornersUp: 2x2 matrix U with columns = steps of i and j} from HexGrid._getRawUnitSteps."""
    f = idx.method(HEX, "_getRawUnitSteps")
    calls, consts = helper_inliner(idx)
    consts = dict(consts)
    # numeric module-level constants of the grid module itself (COS30 = sqrt(3) / 2.0 ...), evaluated exactly
    for st in f.module.tree.body:
        if isinstance(st, ast.Assign) and len(st.targets) == 1 and isinstance(st.targets[0], ast.Name) and st.targets[0].id not in consts:
            try:
                consts[st.targets[0].id] = ExprEval(consts=consts, opaque=False).ev(st.value)
            except AnalysisError:
                pass
    env = {"pitch": Poly.atom("pitch")}
    E = ExprEval(env=env, consts=consts, calls=calls, opaque=False)
    out = {}
    body = [s for s in f.node.body if not (isinstance(s, ast.Expr) and isinstance(s.value, ast.Constant))]
    for st in body:
        # canonical form (canon C11): `if cornersUp: u = (...) else: u = (...)` is the conditional expression `u = (...) if cornersUp else (...)`
        if isinstance(st, (ast.Assign, ast.Return)) and isinstance(st.value, ast.IfExp) and isinstance(st.value.body, ast.Tuple) and isinstance(st.value.orelse, ast.Tuple):
            tg = st.targets if isinstance(st, ast.Assign) else [ast.Name(id="_unitSteps", ctx=ast.Store())]
            st = ast.If(test=st.value.test, body=[ast.Assign(targets=tg, value=st.value.body)], orelse=[ast.Assign(targets=tg, value=st.value.orelse)])
        if isinstance(st, ast.Assign) and isinstance(st.targets[0], ast.Name) and not isinstance(st.value, ast.Tuple):
            E.env[st.targets[0].id] = E.ev(st.value)
        elif isinstance(st, ast.If):
            test, legs = norm(st.test), ((True, st.body), (False, st.orelse))
            if test == "not cornersUp":
                test, legs = "cornersUp", ((False, st.body), (True, st.orelse))
            if test != "cornersUp":
                raise AnalysisError(f"_getRawUnitSteps: unexpected test `{norm(st.test)}`")
            for flag, blk in legs:
                a = next((s for s in blk if isinstance(s, ast.Assign) and isinstance(s.value, ast.Tuple)), None)
                if a is None:
                    raise AnalysisError("_getRawUnitSteps: tuple of unit steps not found")
                rows = a.value.elts
                out[flag] = [[E.ev(rows[0].elts[0]), E.ev(rows[0].elts[1])], [E.ev(rows[1].elts[0]), E.ev(rows[1].elts[1])]]
                third = [E.ev(e) for e in rows[2].elts] + [E.ev(rows[0].elts[2]), E.ev(rows[1].elts[2])]
                if not all(t.iszero() for t in third):
                    raise AnalysisError("_getRawUnitSteps: third row/column must be zero")
    if set(out) != {True, False}:
        raise AnalysisError("_getRawUnitSteps: both orientations expected")
    return out


def neighbour_offsets(idx) -> List[Tuple[Poly, Poly]]:
    f = idx.method(HEX, "getNeighboringCellIndices")
    ret = next((n for n in walk_local(f.node) if isinstance(n, ast.Return)), None)
    if ret is None or not isinstance(ret.value, ast.List):
        raise AnalysisError("getNeighboringCellIndices: list of offsets expected")
    E = ExprEval(env={"i": Poly.const(0), "j": Poly.const(0), "k": Poly.const(0)}, opaque=False)
    offs = []
    for t in ret.value.elts:
        if not isinstance(t, ast.Tuple) or len(t.elts) != 3:
            raise AnalysisError("neighbour entry must be (i+a, j+b, k)")
        offs.append((E.ev(t.elts[0]), E.ev(t.elts[1])))
    return offs


def neighbour_axial_entries(idx) -> List[ast.AST]:
    """the third entry of each neighbour tuple (rule: it is the cell's own axial index k)"""
    f = idx.method(HEX, "getNeighboringCellIndices")
    ret = next((n for n in walk_local(f.node) if isinstance(n, ast.Return)), None)
    if ret is None or not isinstance(ret.value, ast.List):
        raise AnalysisError("getNeighboringCellIndices: list of offsets expected")
    return [t.elts[2] for t in ret.value.elts if isinstance(t, ast.Tuple) and len(t.elts) == 3]


def if_chain(fnode_or_stmts) -> List[Tuple[List[Tuple[ast.AST, bool]], List[ast.stmt]]]:
    """Top-level if/elif/else chain -> [(conditions with polarity, body)]."""
    stmts = fnode_or_stmts if isinstance(fnode_or_stmts, list) else fnode_or_stmts.body
    first = next((s for s in stmts if isinstance(s, ast.If)), None)
    if first is None:
        # canonical form (canon C11/C4): a ladder of single assignments to one name is one (nested) conditional expression
        st = next((s for s in stmts if isinstance(s, (ast.Assign, ast.Return)) and isinstance(s.value, ast.IfExp)), None)
        if st is None:
            raise AnalysisError("decision chain not found")
        tg = st.targets if isinstance(st, ast.Assign) else [ast.Name(id="_result", ctx=ast.Store())]
        out, neg, e = [], [], st.value
        while isinstance(e, ast.IfExp):
            out.append((neg + [(e.test, True)], [ast.copy_location(ast.Assign(targets=tg, value=e.body), e.body)]))
            neg = neg + [(e.test, False)]
            e = e.orelse
        out.append((neg, [ast.copy_location(ast.Assign(targets=tg, value=e), e)]))
        return out
    def leaves(body):
        if not body:
            return False
        last = body[-1]
        if isinstance(last, (ast.Return, ast.Raise, ast.Continue, ast.Break)):
            return True
        return isinstance(last, ast.If) and bool(last.orelse) and leaves(last.body) and leaves(last.orelse)
    out = []
    neg = []
    cur, where = first, stmts
    while True:
        out.append((neg + [(cur.test, True)], cur.body))
        neg = neg + [(cur.test, False)]
        if len(cur.orelse) == 1 and isinstance(cur.orelse[0], ast.If):
            cur, where = cur.orelse[0], cur.orelse
        elif cur.orelse:
            out.append((neg, cur.orelse))
            break
        else:
            # canonical form (canon C10): a branch that always leaves has no else; what follows it in the same statement list is its else
            rest = where[where.index(cur) + 1:] if cur in where else []
            if not (leaves(cur.body) and rest):
                break
            if isinstance(rest[0], ast.If):
                cur = rest[0]
            else:
                out.append((neg, rest))
                break
    return out


SIGN_CLASSES = [  # (sign i, sign j, sign(i+j)), the 13 faces of the arrangement i=0, j=0, i+j=0
    (0, 0, 0),
    (1, 0, 1), (0, 1, 1), (-1, 1, 0), (-1, 0, -1), (0, -1, -1), (1, -1, 0),
    (1, 1, 1), (-1, 1, 1), (-1, 1, -1), (-1, -1, -1), (1, -1, -1), (1, -1, 1),
]


def linear_sign(p: Poly, cls) -> int:
    """sign of a homogeneous linear form in i, j that is a multiple of i, j or i+j, on a sign class."""
    I, J = p.coeff("i", 1).const_value(), p.coeff("j", 1).const_value()
    rest = p - Poly.atom("i") * poly(I if I is not None else 0) - Poly.atom("j") * poly(J if J is not None else 0)
    if I is None or J is None or not rest.iszero():
        raise AnalysisError(f"`{p}` is not a homogeneous linear form in i, j")
    si, sj, sij = cls
    a, b = I.sign(), J.sign()
    if b == 0:
        return a * si
    if a == 0:
        return b * sj
    if I == J:
        return a * sij
    raise AnalysisError(f"`{p}` is not a multiple of i, j or i+j")


def eval_guard_sign(test: ast.AST, cls) -> bool:
    if isinstance(test, ast.BoolOp):
        vals = [eval_guard_sign(v, cls) for v in test.values]
        return all(vals) if isinstance(test.op, ast.And) else any(vals)
    if isinstance(test, ast.UnaryOp) and isinstance(test.op, ast.Not):
        return not eval_guard_sign(test.operand, cls)
    if isinstance(test, ast.Compare):
        E = ExprEval(env={"i": Poly.atom("i"), "j": Poly.atom("j")}, opaque=False)
        terms = [test.left] + list(test.comparators)
        res = True
        for a, op, b in zip(terms, test.ops, terms[1:]):
            s = linear_sign(E.ev(a) - E.ev(b), cls)
            ok = {ast.Gt: s > 0, ast.GtE: s >= 0, ast.Lt: s < 0, ast.LtE: s <= 0, ast.Eq: s == 0, ast.NotEq: s != 0}.get(type(op))
            if ok is None:
                raise AnalysisError(f"comparison `{norm(test)}` outside fragment")
            res = res and ok
        return res
    raise AnalysisError(f"guard `{norm(test)}` outside the sign fragment")
