"""Argument-pairing rules shared by several properties.

(1) name pairing.  When a call hands over, positionally, an argument whose own name (a variable `x`, an attribute `obj.x`, a
    constant key `d["x"]`) is the name of one of the callee's parameters, it has to stand at that parameter's position.  `f(a, c, b)`
    for `def f(a, b, c)` type-checks whenever b and c have one type; the values land on each other's parameter.

(2) pass-through agreement.  A keyword `k=k` whose value is the caller's own parameter `k` is a pass-through.  Sibling calls - calls to
    one callee inside one function, or the calls in the two branches of an `if` that feed one variable - must agree on which
    parameters they pass through: a branch that drops `k` (or replaces it by a literal) silently ignores what the caller asked for.

Both rules are decided on resolved callees only (self.method through the MRO, module-level functions, constructors); an unresolved
callee is skipped, never guessed."""
from __future__ import annotations

import ast
from typing import Iterable, Iterator, List, Optional, Tuple

from .astutil import iter_calls, walk_local
from .index import norm


def arg_name(a: ast.AST) -> Optional[str]:
    if isinstance(a, ast.Name):
        return a.id
    if isinstance(a, ast.Attribute):
        return a.attr
    if isinstance(a, ast.Subscript) and isinstance(a.slice, ast.Constant) and isinstance(a.slice.value, str):
        return a.slice.value
    return None


def resolve_callee(idx, f, call: ast.Call):
    """-> (FuncInfo, number of leading parameters bound implicitly) or None"""
    fn = call.func
    if isinstance(fn, ast.Attribute) and isinstance(fn.value, ast.Name) and fn.value.id == "self" and f.cls is not None:
        g = f.cls.resolve(fn.attr)
        if g is not None and not _is_static(g):
            return g, 1
        if g is not None:
            return g, 0
        return None
    if isinstance(fn, (ast.Name, ast.Attribute)):
        d = norm(fn)
        try:
            obj = idx.resolve_name(f.module, str(d))
        except Exception:
            obj = None
        if obj is None:
            return None
        if hasattr(obj, "methods"):  # a class: its constructor
            g = obj.resolve("__init__")
            return (g, 1) if g is not None else None
        if hasattr(obj, "node") and isinstance(getattr(obj, "node"), (ast.FunctionDef, ast.AsyncFunctionDef)):
            if getattr(obj, "cls", None) is not None:
                # Class.method(self, ...) called through the class: explicit self
                return obj, 0
            return obj, 0
    return None


def _is_static(g) -> bool:
    return any(isinstance(d, ast.Name) and d.id in ("staticmethod",) for d in g.node.decorator_list)


def name_pairing_violations(idx, f) -> Iterator[Tuple[ast.Call, int, str, str]]:
    """(call, position, argument name, parameter it landed on) for every positional argument that carries the name of ANOTHER
    parameter of the callee while the parameter it stands at has a different name that is also handed over in the same call."""
    for c in iter_calls(f.node):
        if any(isinstance(a, ast.Starred) for a in c.args):
            continue
        r = resolve_callee(idx, f, c)
        if r is None:
            continue
        g, skip = r
        a = g.node.args
        params = [x.arg for x in a.posonlyargs + a.args][skip:]
        if a.vararg is not None and len(c.args) > len(params):
            continue
        names = [arg_name(x) for x in c.args]
        for i, nm in enumerate(names):
            if nm is None or i >= len(params) or nm == params[i]:
                continue
            if nm in params:
                j = params.index(nm)
                # swapped: the parameter at i is itself handed over elsewhere in this call under its own name
                other = names[j] if j < len(names) else None
                if other == params[i]:
                    yield c, i, nm, params[i]


def keyword_swap_violations(f) -> Iterator[Tuple[ast.Call, str, str]]:
    """`g(a=b, b=a)`: two keywords that each receive the variable named like the other."""
    for c in iter_calls(f.node):
        kw = {k.arg: k.value.id for k in c.keywords if k.arg and isinstance(k.value, ast.Name)}
        for k, v in kw.items():
            if v != k and kw.get(v) == k and k < v:
                yield c, k, v


def passthrough_map(f, call: ast.Call):
    ps = set(x.arg for x in f.node.args.posonlyargs + f.node.args.args + f.node.args.kwonlyargs)
    return {k.arg for k in call.keywords if k.arg and isinstance(k.value, ast.Name) and k.value.id == k.arg and k.arg in ps}


def same_callee_passthrough_violations(f) -> Iterator[Tuple[ast.Call, str]]:
    """calls to one callee in f: a keyword that is a pass-through in one call and a literal constant in another."""
    groups = {}
    for c in iter_calls(f.node):
        groups.setdefault(str(norm(c.func)), []).append(c)
    for calls in groups.values():
        if len(calls) < 2:
            continue
        pt = set().union(*[passthrough_map(f, c) for c in calls])
        for c in calls:
            mine = passthrough_map(f, c)
            for k in c.keywords:
                if k.arg in pt and k.arg not in mine and isinstance(k.value, ast.Constant):
                    yield c, k.arg


def branch_passthrough_violations(f) -> Iterator[Tuple[ast.Call, str]]:
    """`if t: x = g(k=k, ...) else: x = h(...)`: both branches bind (or return) one thing from a call; the pass-through keywords agree."""
    for n in walk_local(f.node):
        if not isinstance(n, ast.If) or not n.orelse:
            continue
        legs = []
        cur = n
        while True:
            legs.append(cur.body)
            if len(cur.orelse) == 1 and isinstance(cur.orelse[0], ast.If):
                cur = cur.orelse[0]
                continue
            legs.append(cur.orelse)
            break
        heads = []
        for body in legs:
            if len(body) != 1:
                heads = []
                break
            st = body[0]
            if isinstance(st, ast.Assign) and len(st.targets) == 1 and isinstance(st.value, ast.Call):
                heads.append((norm(st.targets[0]), st.value))
            elif isinstance(st, ast.Return) and isinstance(st.value, ast.Call):
                heads.append(("return", st.value))
            else:
                heads = []
                break
        if len(heads) < 2 or len({h[0] for h in heads}) != 1:
            continue
        pt = set().union(*[passthrough_map(f, c) for _t, c in heads])
        for _t, c in heads:
            for k in sorted(pt - passthrough_map(f, c)):
                yield c, k


# a parameter that is accepted and deliberately not used, with the reason the source itself gives
FORWARD_EXEMPT = {
    ("UnshapedComponent.getBoundingCircleOuterDiameter", "Tc"): "docstring: 'Tc is not used in this method for this particular component' (the area has no thermal expansion model)",
    ("DerivedShape.getBoundingCircleOuterDiameter", "Tc"): "docstring: the value is only used to sort components (must be smaller than at least one)",
    ("DerivedShape.getBoundingCircleOuterDiameter", "cold"): "docstring: the value is only used to sort components (must be smaller than at least one)",
}


def pairing_rule(idx, r, prefixes: Iterable[str], min_resolved: int = 20):
    """The three rules over every function of the modules named by `prefixes` (the property's anchor modules)."""
    from .index import AnchorMissing
    resolved = 0
    for f in idx.all_funcs():
        mn = f.module.name
        if ".tests" in mn or not any(mn == p or mn.startswith(p + ".") for p in prefixes):
            continue
        for c in iter_calls(f.node):
            if resolve_callee(idx, f, c) is not None:
                resolved += 1
        for c, i, nm, p in name_pairing_violations(idx, f):
            r.violate(f"{f.qualname}:argument-{nm}-at-its-parameter", f, f"`{str(norm(c))[:90]}` hands `{nm}` over at the position of parameter `{p}` (and `{p}` at the position of `{nm}`): "
                      "the two values land on each other's parameter", node=c)
        for c, k in same_callee_passthrough_violations(f):
            r.violate(f"{f.qualname}:{k}-passed-through-in-every-sibling-call", f, f"`{str(norm(c))[:90]}` fixes `{k}` to a literal while the sibling calls to the same function pass the caller's `{k}` through: "
                      f"for any other `{k}` this call computes with the wrong option", node=c)
        for c, k, v in keyword_swap_violations(f):
            r.violate(f"{f.qualname}:{k}-and-{v}-not-exchanged", f, f"`{str(norm(c))[:90]}` passes `{v}` as `{k}` and `{k}` as `{v}`: the two values are exchanged", node=c)
        for c, k in dropped_forward_violations(idx, f):
            if (f.qualname, k) in FORWARD_EXEMPT:
                continue
            r.violate(f"{f.qualname}:{k}-handed-on", f, f"{f.qualname} accepts `{k}` and never reads it, while `{str(norm(c))[:80]}` could take it: the caller's `{k}` is silently dropped", node=c)
        for c, k in branch_passthrough_violations(f):
            r.violate(f"{f.qualname}:{k}-forwarded-by-every-branch", f, f"`{str(norm(c))[:90]}` does not forward `{k}` although the sibling branch does: the caller's `{k}` is silently ignored on this branch", node=c)
    if resolved < min_resolved:
        raise AnchorMissing(f"only {resolved} resolved call sites under {list(prefixes)}")
    r.ok("resolved-call-sites-scanned", ", ".join(prefixes), msg=f"{resolved} call sites with a resolved callee")


def dropped_forward_violations(idx, f) -> Iterator[Tuple[ast.Call, str]]:
    """A parameter of f that f never reads, while f calls a resolved callee that HAS a parameter of that name and is not given it:
    the wrapper accepts the option and silently drops it."""
    a = f.node.args
    mine = [x.arg for x in a.posonlyargs + a.args + a.kwonlyargs if x.arg not in ("self", "cls")]
    if not mine:
        return
    read = {x.id for x in walk_local(f.node) if isinstance(x, ast.Name) and isinstance(x.ctx, ast.Load)}
    unread = [p for p in mine if p not in read and not p.startswith("_")]
    if not unread:
        return
    for c in iter_calls(f.node):
        if any(isinstance(x, ast.Starred) for x in c.args) or any(k.arg is None for k in c.keywords):
            continue
        r = resolve_callee(idx, f, c)
        if r is None:
            continue
        g, skip = r
        ga = g.node.args
        gp = [x.arg for x in ga.posonlyargs + ga.args][skip:]
        gk = gp + [x.arg for x in ga.kwonlyargs]
        for p in unread:
            if p not in gk:
                continue
            given = any(k.arg == p for k in c.keywords) or (p in gp and gp.index(p) < len(c.args))
            if not given:
                yield c, p
