"""Canonical form of a module's syntax tree, applied once when the index parses a file (E0).

The rules compare constructs of the tree; so that they do not depend on how an expression or statement happens to be
written, every tree is first brought to one canonical spelling. Each rewrite is meaning-preserving for the analyses
(no rule distinguishes the two spellings) and keeps the original line numbers for reporting:

  C1  `pass` is dropped from bodies that have other statements
  C2  commutative operations with exactly one numeric-constant operand put the constant on the right
      (x + 1, x * 2, x == 0, x != 0); a single comparison with the constant on the left is mirrored (0 < x  ->  x > 0);
      a single comparison between two non-constants is written with < or <= (a > b  ->  b < a)
  C3  `if not c: A else: B`  becomes  `if c: B else: A`   (plain if/else only; elif chains keep their order)
  C4  a temporary that is assigned once and immediately returned is inlined:  t = e; return t   ->   return e
  C5  keyword arguments of a call are ordered by name
  C6  a local that is only ever assigned constants and never read is dropped (`_unused = None`)
  C8  a counter step written as a re-binding is written as an augmented assignment:  n = n + 1  ->  n += 1  (plain local name, numeric
      constant step, + or - only: for numbers the two are the same statement)
  C9  a membership test against a literal list is written against the literal tuple:  x in [a, b]  ->  x in (a, b)
  C10 an `else` after a branch that always leaves the block is flattened (pylint's no-else-return):
      if c: A; return   else: B      ->      if c: A; return      B          (also raise / continue / break; applied outermost first, so an
      if/elif/else ladder whose branches all leave becomes a sequence of guards)
  C11 if c: x = a  else: x = b   ->   x = a if c else b      (one plain-name target, single assignments on both sides)
  C12 a temporary bound once to a call and read once, as the only argument of the call in the very next assignment, is inlined:
      t = g(y); x = f(t)   ->   x = f(g(y))
  C13 a temporary that only names the test of the very next `if` / `while` is inlined:  t = a < b; if t: ...   ->   if a < b: ...
  C7  logging statements (`runLog.debug/extra/info/important/warning/error/header(...)` as a statement) are dropped: no rule
      is about what is logged, and log lines come and go
"""
from __future__ import annotations

import ast

_MIRROR = {ast.Lt: ast.Gt, ast.Gt: ast.Lt, ast.LtE: ast.GtE, ast.GtE: ast.LtE, ast.Eq: ast.Eq, ast.NotEq: ast.NotEq}


_LOG_LEVELS = {"debug", "extra", "info", "important", "warning", "error", "header"}


def _num(x):
    return isinstance(x, ast.Constant) and isinstance(x.value, (int, float)) and not isinstance(x.value, bool)


class _Canon(ast.NodeTransformer):
    def __init__(self):
        self.fn_stack = []
        self._ret_cache = {}

    # ---- C2
    def visit_BinOp(self, n):
        self.generic_visit(n)
        if isinstance(n.op, (ast.Add, ast.Mult)) and _num(n.left) and not _num(n.right):
            n.left, n.right = n.right, n.left
        return n

    def visit_Compare(self, n):
        self.generic_visit(n)
        if len(n.ops) == 1 and type(n.ops[0]) in _MIRROR and _num(n.left) and not _num(n.comparators[0]):
            n.left, n.comparators[0] = n.comparators[0], n.left
            n.ops = [_MIRROR[type(n.ops[0])]()]
        elif len(n.ops) == 1 and isinstance(n.ops[0], (ast.Gt, ast.GtE)) and not _num(n.left) and not _num(n.comparators[0]):
            # neither side a numeric constant: one orientation only (a > b  is written  b < a)
            n.left, n.comparators[0] = n.comparators[0], n.left
            n.ops = [_MIRROR[type(n.ops[0])]()]
        # ---- C9
        if len(n.ops) == 1 and isinstance(n.ops[0], (ast.In, ast.NotIn)) and isinstance(n.comparators[0], ast.List):
            n.comparators[0] = ast.copy_location(ast.Tuple(elts=n.comparators[0].elts, ctx=ast.Load()), n.comparators[0])
        return n

    # ---- C8
    def visit_Assign(self, n):
        self.generic_visit(n)
        if len(n.targets) == 1 and isinstance(n.targets[0], ast.Name) and isinstance(n.value, ast.BinOp) and isinstance(n.value.op, (ast.Add, ast.Sub)) \
                and isinstance(n.value.left, ast.Name) and n.value.left.id == n.targets[0].id and _num(n.value.right):
            return ast.copy_location(ast.AugAssign(target=ast.Name(id=n.targets[0].id, ctx=ast.Store()), op=n.value.op, value=n.value.right), n)
        return n

    # ---- C3 for conditional expressions:  b if not c else a   ->   a if c else b
    def visit_IfExp(self, n):
        self.generic_visit(n)
        if isinstance(n.test, ast.UnaryOp) and isinstance(n.test.op, ast.Not):
            n.test, n.body, n.orelse = n.test.operand, n.orelse, n.body
        return n

    # ---- C5
    def visit_Call(self, n):
        self.generic_visit(n)
        if len(n.keywords) >= 2 and all(k.arg is not None for k in n.keywords):
            n.keywords = sorted(n.keywords, key=lambda k: k.arg)
        return n

    # ---- C3
    def visit_If(self, n):
        self.generic_visit(n)
        if n.orelse and not (len(n.orelse) == 1 and isinstance(n.orelse[0], ast.If)) and isinstance(n.test, ast.UnaryOp) and isinstance(n.test.op, ast.Not) and not self._leaves(n.body):
            n.test = n.test.operand
            n.body, n.orelse = n.orelse, n.body
        return n

    # ---- C1, C4 on statement lists
    @staticmethod
    def _leaves(body):
        if not body:
            return False
        last = body[-1]
        if isinstance(last, (ast.Return, ast.Raise, ast.Continue, ast.Break)):
            return True
        if isinstance(last, ast.If) and last.orelse:
            return _Canon._leaves(last.body) and _Canon._leaves(last.orelse)
        return False

    def _flatten_exits(self, body, elif_leg=False):
        out = []
        for st in body:
            plain = isinstance(st, ast.If) and st.orelse and not (len(st.orelse) == 1 and isinstance(st.orelse[0], ast.If))
            negated = plain and isinstance(st.test, ast.UnaryOp) and isinstance(st.test.op, ast.Not)
            if plain and elif_leg:
                # the last leg of an elif ladder keeps its place in the ladder; only its polarity is normalised
                if negated:
                    st.test, st.body, st.orelse = st.test.operand, st.orelse, st.body
                out.append(st)
                continue
            if plain and _Canon._leaves(st.orelse) and not _Canon._leaves(st.body):
                # only the else branch leaves: it becomes the guard (`if not t: <else>`), the former body follows it
                neg = st.test.operand if negated else ast.copy_location(ast.UnaryOp(op=ast.Not(), operand=st.test), st.test)
                st.test, st.body, st.orelse = neg, st.orelse, st.body
            if isinstance(st, ast.If) and st.orelse and _Canon._leaves(st.body):
                tail = st.orelse
                st.orelse = []
                out.append(st)
                out.extend(_Canon._flatten_exits(None, tail))
            else:
                out.append(st)
        return out

    @staticmethod
    def _as_ternary(st):
        if isinstance(st, ast.If) and len(st.body) == 1 and len(st.orelse) == 1 and all(isinstance(x, ast.Assign) and len(x.targets) == 1 and isinstance(x.targets[0], ast.Name) for x in (st.body[0], st.orelse[0])) \
                and st.body[0].targets[0].id == st.orelse[0].targets[0].id:
            return ast.copy_location(ast.Assign(targets=[ast.Name(id=st.body[0].targets[0].id, ctx=ast.Store())], value=ast.IfExp(test=st.test, body=st.body[0].value, orelse=st.orelse[0].value)), st)
        return st

    def _block(self, body, fn):
        out = []
        i = 0
        while i < len(body):
            s = body[i]
            if isinstance(s, ast.Pass) and len(body) > 1:
                i += 1
                continue
            if len(body) > 1 and isinstance(s, ast.Expr) and isinstance(s.value, ast.Call) and isinstance(s.value.func, ast.Attribute) \
                    and isinstance(s.value.func.value, ast.Name) and s.value.func.value.id == "runLog" and s.value.func.attr in _LOG_LEVELS and (out or i + 1 < len(body)):
                i += 1
                continue
            if (fn is not None and len(body) > 1 and isinstance(s, ast.Assign) and len(s.targets) == 1 and isinstance(s.targets[0], ast.Name)
                    and isinstance(s.value, ast.Constant) and self._dead_const_local(fn, s.targets[0].id)):
                i += 1
                continue
            nxt = body[i + 1] if i + 1 < len(body) else None
            # ---- C12: a temporary bound once to a call and read once, as the only argument of a call in the very next assignment, is inlined:
            #      t = g(y); x = f(t)   ->   x = f(g(y))
            if (fn is not None and isinstance(s, ast.Assign) and len(s.targets) == 1 and isinstance(s.targets[0], ast.Name) and isinstance(s.value, ast.Call)
                    and isinstance(nxt, ast.Assign) and isinstance(nxt.value, ast.Call) and len(nxt.value.args) == 1 and not nxt.value.keywords
                    and isinstance(nxt.value.args[0], ast.Name) and nxt.value.args[0].id == s.targets[0].id and self._single_use(fn, s.targets[0].id)):
                nxt.value.args = [s.value]
                i += 1
                continue
            if (fn is not None and isinstance(s, ast.Assign) and len(s.targets) == 1 and isinstance(s.targets[0], ast.Name) and isinstance(nxt, ast.Return)
                    and isinstance(nxt.value, ast.Name) and nxt.value.id == s.targets[0].id and self._only_returned(fn, s.targets[0].id)):
                r = ast.Return(value=s.value)
                ast.copy_location(r, s)
                r.end_lineno = getattr(nxt, "end_lineno", None)
                out.append(r)
                i += 2
                continue
            out.append(s)
            i += 1
        if not out:
            out = [body[0]] if body else body
        return out

    def _single_use(self, fn, name):
        key = ("single", id(fn), name)
        if key not in self._ret_cache:
            loads = [x for x in ast.walk(fn) if isinstance(x, ast.Name) and x.id == name and isinstance(x.ctx, ast.Load)]
            stores = [x for x in ast.walk(fn) if isinstance(x, ast.Name) and x.id == name and isinstance(x.ctx, (ast.Store, ast.Del))]
            params = {a.arg for a in fn.args.args + fn.args.kwonlyargs + fn.args.posonlyargs}
            self._ret_cache[key] = len(loads) == 1 and len(stores) == 1 and name not in params
        return self._ret_cache[key]

    def _dead_const_local(self, fn, name):
        key = ("dead", id(fn), name)
        if key not in self._ret_cache:
            loads = any(isinstance(x, ast.Name) and x.id == name and isinstance(x.ctx, ast.Load) for x in ast.walk(fn))
            stores_const = all(isinstance(x, ast.Assign) and isinstance(x.value, ast.Constant) for x in ast.walk(fn)
                               if isinstance(x, (ast.Assign, ast.AugAssign, ast.AnnAssign, ast.For)) and any(isinstance(t, ast.Name) and t.id == name for t in ast.walk(x) if isinstance(t, ast.Name) and isinstance(t.ctx, ast.Store)))
            glob = any(isinstance(x, (ast.Global, ast.Nonlocal)) and name in x.names for x in ast.walk(fn))
            self._ret_cache[key] = (not loads) and stores_const and not glob
        return self._ret_cache[key]

    def _only_returned(self, fn, name):
        """every read of `name` in fn is `return name` directly after a plain `name = e` (so each pair can be inlined)"""
        key = (id(fn), name)
        if key in self._ret_cache:
            return self._ret_cache[key]
        loads = [x for x in ast.walk(fn) if isinstance(x, ast.Name) and x.id == name and isinstance(x.ctx, ast.Load)]
        stores = [x for x in ast.walk(fn) if isinstance(x, ast.Name) and x.id == name and isinstance(x.ctx, (ast.Store, ast.Del))]
        pairs_loads, pairs_stores = set(), set()

        def scan(body):
            for a, b in zip(body, body[1:]):
                if (isinstance(a, ast.Assign) and len(a.targets) == 1 and isinstance(a.targets[0], ast.Name) and a.targets[0].id == name and isinstance(b, ast.Return)
                        and isinstance(b.value, ast.Name) and b.value.id == name):
                    pairs_loads.add(id(b.value))
                    pairs_stores.add(id(a.targets[0]))
        for n in ast.walk(fn):
            for f in ("body", "orelse", "finalbody"):
                blk = getattr(n, f, None)
                if isinstance(blk, list) and blk and isinstance(blk[0], ast.stmt):
                    scan(blk)
        ok = bool(loads) and all(id(x) in pairs_loads for x in loads) and all(id(x) in pairs_stores for x in stores) and name not in {a.arg for a in fn.args.args + fn.args.kwonlyargs + fn.args.posonlyargs}
        self._ret_cache[key] = ok
        return ok

    def generic_visit(self, node):
        is_fn = isinstance(node, (ast.FunctionDef, ast.AsyncFunctionDef))
        if is_fn:
            self.fn_stack.append(node)
        super().generic_visit(node)
        fn = self.fn_stack[-1] if self.fn_stack else None
        for f in ("body", "orelse", "finalbody"):
            b = getattr(node, f, None)
            if isinstance(b, list) and b and isinstance(b[0], ast.stmt):
                setattr(node, f, self._block(b, fn))
        if isinstance(node, ast.Try):
            for h in node.handlers:
                h.body = self._block(h.body, fn)
        if is_fn:
            self.fn_stack.pop()
        return node

    visit_FunctionDef = generic_visit
    visit_AsyncFunctionDef = generic_visit


class _InlineTests(ast.NodeTransformer):
    """C13 as the very first pass (C11 turns an if/else into an expression; the test has to be in place before that)"""

    def __init__(self):
        self.fn_stack = []

    @staticmethod
    def _single(fn, name):
        loads = [x for x in ast.walk(fn) if isinstance(x, ast.Name) and x.id == name and isinstance(x.ctx, ast.Load)]
        stores = [x for x in ast.walk(fn) if isinstance(x, ast.Name) and x.id == name and isinstance(x.ctx, (ast.Store, ast.Del))]
        params = {a.arg for a in fn.args.args + fn.args.kwonlyargs + fn.args.posonlyargs}
        return len(loads) == 1 and len(stores) == 1 and name not in params

    def _block(self, body, fn):
        out, i = [], 0
        while i < len(body):
            s, nxt = body[i], (body[i + 1] if i + 1 < len(body) else None)
            if fn is not None and isinstance(s, ast.Assign) and len(s.targets) == 1 and isinstance(s.targets[0], ast.Name) and isinstance(nxt, (ast.If, ast.While)):
                t = nxt.test
                neg = isinstance(t, ast.UnaryOp) and isinstance(t.op, ast.Not)
                core = t.operand if neg else t
                if isinstance(core, ast.Name) and core.id == s.targets[0].id and self._single(fn, s.targets[0].id):
                    nxt.test = ast.copy_location(ast.UnaryOp(op=ast.Not(), operand=s.value), t) if neg else s.value
                    i += 1
                    continue
            out.append(s)
            i += 1
        return out

    def generic_visit(self, node):
        is_fn = isinstance(node, (ast.FunctionDef, ast.AsyncFunctionDef))
        if is_fn:
            self.fn_stack.append(node)
        super().generic_visit(node)
        fn = self.fn_stack[-1] if self.fn_stack else None
        for f in ("body", "orelse", "finalbody"):
            b = getattr(node, f, None)
            if isinstance(b, list) and b and isinstance(b[0], ast.stmt):
                setattr(node, f, self._block(b, fn))
        if is_fn:
            self.fn_stack.pop()
        return node

    visit_FunctionDef = generic_visit
    visit_AsyncFunctionDef = generic_visit


class _Flatten(ast.NodeTransformer):
    """C10 as a pass of its own, run before everything else (the other rewrites look at whole function bodies and must see the
    statements where they end up)"""

    def generic_visit(self, node):
        super().generic_visit(node)
        for f in ("body", "orelse", "finalbody"):
            b = getattr(node, f, None)
            if isinstance(b, list) and b and isinstance(b[0], ast.stmt):
                if len(b) > 1:
                    b = [x for x in b if not isinstance(x, ast.Pass)] or b[:1]   # C1 first: a `pass` must not hide a ladder from C11
                leg = isinstance(node, ast.If) and f == "orelse" and len(b) == 1 and isinstance(b[0], ast.If)
                setattr(node, f, [_Canon._as_ternary(x) for x in _Canon._flatten_exits(None, b, elif_leg=leg)])
        if isinstance(node, ast.Try):
            for h in node.handlers:
                h.body = _Canon._flatten_exits(None, h.body)
        return node


def canonicalise(tree: ast.Module) -> ast.Module:
    tree = _InlineTests().visit(tree)
    tree = _Flatten().visit(tree)
    t = _Canon().visit(tree)
    ast.fix_missing_locations(t)
    return t
