"""Small AST helpers shared by the rules (stores, calls, argument lookup, local copy propagation)."""
from __future__ import annotations

import ast
from dataclasses import dataclass
from typing import Dict, Iterator, List, Optional, Tuple

from .index import dotted, norm

MUTATORS = {
    "append", "insert", "remove", "pop", "extend", "sort", "clear", "update", "setdefault",
    "reverse", "popitem", "add", "discard", "__setitem__", "__delitem__", "appendleft", "rotate",
}


def walk_local(node: ast.AST, include_nested=False) -> Iterator[ast.AST]:
    """ast.walk that does not descend into nested function / class definitions."""
    todo = list(ast.iter_child_nodes(node))
    while todo:
        n = todo.pop(0)
        yield n
        if not include_nested and isinstance(n, (ast.FunctionDef, ast.AsyncFunctionDef, ast.ClassDef, ast.Lambda)):
            continue
        todo[0:0] = list(ast.iter_child_nodes(n))


@dataclass
class Store:
    kind: str  # assign | aug | del | subscript | subscript-aug | subscript-del | mutcall | setattr
    node: ast.AST  # the target expression (Attribute / Subscript / Name) or the Call
    stmt: ast.AST  # enclosing statement (or the Call itself for mutcall/setattr)
    chain: Optional[str]  # dotted text of the location written: 'self._children', 'a.parent'
    attr: Optional[str]  # last attribute name of the location ('_children', 'parent', or Name id)
    value: Optional[ast.AST] = None
    method: Optional[str] = None  # for mutcall

    @property
    def base(self) -> Optional[str]:
        if self.chain and "." in self.chain:
            return self.chain.rsplit(".", 1)[0]
        return None


def _loc(t: ast.AST) -> Tuple[Optional[str], Optional[str]]:
    d = dotted(t)
    if d is None:
        if isinstance(t, ast.Attribute):
            return None, t.attr
        return None, None
    return d, d.rsplit(".", 1)[-1]


def iter_stores(fnode: ast.AST, include_nested=True) -> Iterator[Store]:
    for n in walk_local(fnode, include_nested=include_nested):
        if isinstance(n, (ast.Assign, ast.AnnAssign, ast.AugAssign)):
            targets = n.targets if isinstance(n, ast.Assign) else [n.target]
            kind = "aug" if isinstance(n, ast.AugAssign) else "assign"
            val = getattr(n, "value", None)
            flat = []
            for t in targets:
                flat.extend(_flatten_target(t))
            for t in flat:
                if isinstance(t, ast.Subscript):
                    ch, at = _loc(t.value)
                    yield Store("subscript-aug" if kind == "aug" else "subscript", t, n, ch, at, val)
                elif isinstance(t, (ast.Attribute, ast.Name)):
                    ch, at = _loc(t)
                    yield Store(kind, t, n, ch, at, val)
        elif isinstance(n, ast.Delete):
            for t in n.targets:
                if isinstance(t, ast.Subscript):
                    ch, at = _loc(t.value)
                    yield Store("subscript-del", t, n, ch, at)
                else:
                    ch, at = _loc(t)
                    yield Store("del", t, n, ch, at)
        elif isinstance(n, (ast.For, ast.AsyncFor)):
            for t in _flatten_target(n.target):
                if isinstance(t, (ast.Attribute, ast.Name)):
                    ch, at = _loc(t)
                    yield Store("assign", t, n, ch, at, None)
        elif isinstance(n, ast.Call):
            f = n.func
            if isinstance(f, ast.Attribute) and f.attr in MUTATORS:
                ch, at = _loc(f.value)
                if at is not None:
                    yield Store("mutcall", n, n, ch, at, None, f.attr)
            elif isinstance(f, ast.Name) and f.id in ("setattr", "delattr") and len(n.args) >= 2:
                if isinstance(n.args[1], ast.Constant) and isinstance(n.args[1].value, str):
                    b = dotted(n.args[0])
                    yield Store("setattr", n, n, f"{b}.{n.args[1].value}" if b else None, n.args[1].value,
                                n.args[2] if len(n.args) > 2 else None)
                else:
                    yield Store("setattr", n, n, None, None, None)
            elif dotted(f) == "object.__setattr__" and len(n.args) >= 2:
                a = n.args[1].value if isinstance(n.args[1], ast.Constant) else None
                b = dotted(n.args[0])
                yield Store("setattr", n, n, f"{b}.{a}" if (a and b) else None, a, n.args[2] if len(n.args) > 2 else None)


def _flatten_target(t):
    if isinstance(t, (ast.Tuple, ast.List)):
        out = []
        for e in t.elts:
            out.extend(_flatten_target(e))
        return out
    if isinstance(t, ast.Starred):
        return _flatten_target(t.value)
    return [t]


def iter_calls(fnode: ast.AST, include_nested=True) -> Iterator[ast.Call]:
    for n in walk_local(fnode, include_nested=include_nested):
        if isinstance(n, ast.Call):
            yield n


def call_name(c: ast.Call) -> Optional[str]:
    """Dotted name of the callee, or '<expr>.attr' last attribute for non-dotted receivers."""
    d = dotted(c.func)
    if d:
        return d
    if isinstance(c.func, ast.Attribute):
        return "?." + c.func.attr
    return None


def call_attr(c: ast.Call) -> Optional[str]:
    if isinstance(c.func, ast.Attribute):
        return c.func.attr
    if isinstance(c.func, ast.Name):
        return c.func.id
    return None


def get_arg(c: ast.Call, pos: Optional[int], name: Optional[str]) -> Optional[ast.AST]:
    if name:
        for k in c.keywords:
            if k.arg == name:
                return k.value
    if pos is not None and pos < len(c.args) and not any(isinstance(a, ast.Starred) for a in c.args[: pos + 1]):
        return c.args[pos]
    return None


def is_super_call(c: ast.Call, meth: str) -> bool:
    f = c.func
    return (
        isinstance(f, ast.Attribute)
        and f.attr == meth
        and isinstance(f.value, ast.Call)
        and isinstance(f.value.func, ast.Name)
        and f.value.func.id == "super"
    )


def single_assign_env(fnode: ast.AST) -> Dict[str, ast.AST]:
    """Locals assigned exactly once in the function (simple `name = expr`), for copy propagation."""
    counts: Dict[str, int] = {}
    vals: Dict[str, ast.AST] = {}
    for s in iter_stores(fnode, include_nested=False):
        if isinstance(s.node, ast.Name):
            counts[s.attr] = counts.get(s.attr, 0) + 1
            if s.kind == "assign" and isinstance(s.stmt, ast.Assign) and len(s.stmt.targets) == 1 and s.stmt.targets[0] is s.node:
                vals[s.attr] = s.stmt.value
            else:
                counts[s.attr] += 1
    a = fnode.args
    for p in a.posonlyargs + a.args + a.kwonlyargs + ([a.vararg] if a.vararg else []) + ([a.kwarg] if a.kwarg else []):
        counts[p.arg] = counts.get(p.arg, 0) + 2
    return {k: v for k, v in vals.items() if counts.get(k) == 1}


class _Subst(ast.NodeTransformer):
    def __init__(self, env):
        self.env = env
        self.depth = 0

    def visit_Name(self, n):
        if isinstance(n.ctx, ast.Load) and n.id in self.env and self.depth < 6:
            self.depth += 1
            r = self.visit(_copy(self.env[n.id]))
            self.depth -= 1
            return r
        return n


def _copy(n):
    import copy

    return copy.deepcopy(n)


def propagate(expr: ast.AST, env: Dict[str, ast.AST]) -> ast.AST:
    """Substitute single-assignment locals into expr (returns a new tree)."""
    return _Subst(env).visit(_copy(expr))


def same_expr(a: ast.AST, b: ast.AST) -> bool:
    return ast.dump(_load(a)) == ast.dump(_load(b))


class _ToLoad(ast.NodeTransformer):
    def generic_visit(self, node):
        super().generic_visit(node)
        if hasattr(node, "ctx"):
            node.ctx = ast.Load()
        return node


def _load(n):
    return _ToLoad().visit(_copy(n))


def const_str(n) -> Optional[str]:
    return n.value if isinstance(n, ast.Constant) and isinstance(n.value, str) else None


def names_in(n: ast.AST) -> set:
    return {x.id for x in ast.walk(n) if isinstance(x, ast.Name)}


def contains(node: ast.AST, pred) -> bool:
    return any(pred(x) for x in ast.walk(node))


def find_stmt(fnode, pred) -> List[ast.stmt]:
    return [n for n in walk_local(fnode) if isinstance(n, ast.stmt) and pred(n)]


def optional_params(fnode):
    """names of parameters whose default is the constant None"""
    a = fnode.args
    pos = a.posonlyargs + a.args
    defaults = [None] * (len(pos) - len(a.defaults)) + list(a.defaults) + list(a.kw_defaults)
    return {x.arg for x, d in zip(pos + a.kwonlyargs, defaults) if isinstance(d, ast.Constant) and d.value is None}


def truthiness_uses(fnode, names):
    """Name nodes (from `names`) evaluated for truth: if/while/assert/conditional-expression tests, comprehension
    filters, `not x`, and every operand of and/or except the last."""
    out = []

    def boolctx(e):
        if isinstance(e, ast.Name) and e.id in names:
            out.append(e)
        elif isinstance(e, ast.UnaryOp) and isinstance(e.op, ast.Not):
            boolctx(e.operand)
        elif isinstance(e, ast.BoolOp):
            for v in e.values:
                boolctx(v)

    for n in walk_local(fnode):
        if isinstance(n, (ast.If, ast.While, ast.IfExp, ast.Assert)):
            boolctx(n.test)
        elif isinstance(n, ast.BoolOp):
            for v in n.values[:-1]:
                boolctx(v)
        elif isinstance(n, ast.comprehension):
            for i in n.ifs:
                boolctx(i)
        elif isinstance(n, ast.UnaryOp) and isinstance(n.op, ast.Not):
            boolctx(n.operand)
    seen, uniq = set(), []
    for e in out:
        if id(e) not in seen:
            seen.add(id(e))
            uniq.append(e)
    return uniq


def returned_values(fnode):
    """[(value expression, node to report)] for every `return <value>`; a returned local that is assigned exactly once
    in the function is replaced by the expression it was assigned (so `x = e; ...; return x` and `return e` look alike)."""
    defs = {}
    for st in walk_local(fnode):
        if isinstance(st, ast.Assign) and len(st.targets) == 1 and isinstance(st.targets[0], ast.Name):
            defs.setdefault(st.targets[0].id, []).append(st)
    out = []
    for st in walk_local(fnode):
        if isinstance(st, ast.Return) and st.value is not None:
            v = st.value
            if isinstance(v, ast.Name) and len(defs.get(v.id, [])) == 1:
                out.append((defs[v.id][0].value, defs[v.id][0]))
            else:
                out.append((v, st))
    return out


def cond_values(fnode, name):
    """[(value node, [(test, polarity), ...])] for every value a plain local `name` is given in fnode, with the conditions under which it
    gets it.  A conditional expression on the right-hand side counts as two assignments under its test and the negated test - the form the
    canonical front end (canon C11) gives to `if t: x = a else: x = b`."""
    from .flow import path_conditions
    out = []

    def expand(v, conds):
        if isinstance(v, ast.IfExp):
            expand(v.body, conds + [(v.test, True)])
            expand(v.orelse, conds + [(v.test, False)])
        else:
            out.append((v, conds))
    for s in iter_stores(fnode):
        if isinstance(s.node, ast.Name) and s.node.id == name and s.value is not None and s.kind == "assign":
            expand(s.value, list(path_conditions(fnode, s.stmt)))
    return out
