"""E5 - exact normal forms: polynomials / rational functions over opaque atoms with coefficients in
Q(sqrt 3).  Built from + - * / **int, sqrt(3), named constants, single-assignment local inlining
and inlining of one-line project helpers.  Identities are decided by exact equality of normal
forms; nothing is evaluated numerically and no solver is called."""
from __future__ import annotations

import ast
from fractions import Fraction as F
from typing import Callable, Dict, Optional

from .index import AnalysisError, dotted, norm


class Q3:
    """a + b*sqrt(3), a, b rational."""
    __slots__ = ("a", "b")

    def __init__(self, a=0, b=0):
        self.a, self.b = F(a), F(b)

    def __add__(self, o):
        o = q3(o)
        return Q3(self.a + o.a, self.b + o.b)

    __radd__ = __add__

    def __neg__(self):
        return Q3(-self.a, -self.b)

    def __sub__(self, o):
        return self + (-q3(o))

    def __rsub__(self, o):
        return q3(o) - self

    def __mul__(self, o):
        o = q3(o)
        return Q3(self.a * o.a + 3 * self.b * o.b, self.a * o.b + self.b * o.a)

    __rmul__ = __mul__

    def inv(self):
        d = self.a * self.a - 3 * self.b * self.b
        if d == 0:
            raise ZeroDivisionError("Q3 inverse of zero")
        return Q3(self.a / d, -self.b / d)

    def __truediv__(self, o):
        return self * q3(o).inv()

    def __rtruediv__(self, o):
        return q3(o) * self.inv()

    def __eq__(self, o):
        o = q3(o)
        return self.a == o.a and self.b == o.b

    def __hash__(self):
        return hash((self.a, self.b))

    def iszero(self):
        return self.a == 0 and self.b == 0

    def sign(self):
        """exact sign of a + b*sqrt3"""
        a, b = self.a, self.b
        if b == 0:
            return (a > 0) - (a < 0)
        if a == 0:
            return (b > 0) - (b < 0)
        if a > 0 and b > 0:
            return 1
        if a < 0 and b < 0:
            return -1
        # opposite signs: compare a^2 with 3 b^2
        c = a * a - 3 * b * b
        if a > 0:  # b < 0
            return (c > 0) - (c < 0)
        return (c < 0) - (c > 0)

    def __float__(self):
        return float(self.a) + float(self.b) * 3 ** 0.5

    def __repr__(self):
        if self.b == 0:
            return str(self.a)
        if self.a == 0:
            return f"{self.b}*r3"
        return f"({self.a}+{self.b}*r3)"


def q3(x):
    if isinstance(x, Q3):
        return x
    if isinstance(x, float):
        return Q3(F(str(x)))
    return Q3(x)


SQRT3 = Q3(0, 1)


class Poly:
    """sparse Laurent polynomial: monomial (sorted tuple of (atom, int exp)) -> Q3."""
    __slots__ = ("t",)

    def __init__(self, t=None):
        self.t = {k: v for k, v in (t or {}).items() if not v.iszero()}

    @staticmethod
    def const(c):
        return Poly({(): q3(c)})

    @staticmethod
    def atom(n):
        return Poly({((n, 1),): Q3(1)})

    def __add__(self, o):
        o = poly(o)
        t = dict(self.t)
        for k, v in o.t.items():
            t[k] = t.get(k, Q3(0)) + v
        return Poly(t)

    __radd__ = __add__

    def __neg__(self):
        return Poly({k: -v for k, v in self.t.items()})

    def __sub__(self, o):
        return self + (-poly(o))

    def __rsub__(self, o):
        return poly(o) - self

    def __mul__(self, o):
        o = poly(o)
        t = {}
        for k1, v1 in self.t.items():
            for k2, v2 in o.t.items():
                d = dict(k1)
                for a, e in k2:
                    d[a] = d.get(a, 0) + e
                k = tuple(sorted((a, e) for a, e in d.items() if e))
                t[k] = t.get(k, Q3(0)) + v1 * v2
        return Poly(t)

    __rmul__ = __mul__

    def is_monomial(self):
        return len(self.t) == 1

    def __truediv__(self, o):
        o = poly(o)
        if not o.t:
            raise ZeroDivisionError("division by zero polynomial")
        if len(o.t) == 1:
            (k, v), = o.t.items()
            return self * Poly({tuple((a, -e) for a, e in k): v.inv()})
        # general denominator: keep it as an opaque atom raised to -1
        return self * Poly({((("den", repr(o)), -1),): Q3(1)})

    def __pow__(self, n):
        if not isinstance(n, int):
            raise AnalysisError("non-integer power in Poly")
        if n < 0:
            return Poly.const(1) / (self ** (-n))
        r = Poly.const(1)
        for _ in range(n):
            r = r * self
        return r

    def __eq__(self, o):
        return (self - poly(o)).t == {}

    def __hash__(self):
        return hash(tuple(sorted((k, (v.a, v.b)) for k, v in self.t.items())))

    def iszero(self):
        return not self.t

    def atoms(self):
        return {a for k in self.t for a, _ in k}

    def degree_in(self, atom):
        """(min, max) exponent of atom over all monomials"""
        es = [dict(k).get(atom, 0) for k in self.t]
        return (min(es), max(es)) if es else (0, 0)

    def coeff(self, atom, exp=1):
        t = {}
        for k, v in self.t.items():
            d = dict(k)
            if d.get(atom, 0) == exp:
                d.pop(atom, None)
                t[tuple(sorted(d.items()))] = v
        return Poly(t)

    def const_value(self) -> Optional[Q3]:
        if not self.t:
            return Q3(0)
        if set(self.t) == {()}:
            return self.t[()]
        return None

    def subs(self, mapping: Dict[object, "Poly"]):
        out = Poly()
        for k, v in self.t.items():
            term = Poly.const(v)
            for a, e in k:
                base = mapping.get(a, Poly.atom(a))
                term = term * (base ** e)
            out = out + term
        return out

    def __repr__(self):
        def mono(k):
            return "*".join(f"{a}^{e}" if e != 1 else str(a) for a, e in k) or "1"
        return " + ".join(f"{v}*{mono(k)}" for k, v in sorted(self.t.items(), key=lambda kv: repr(kv[0]))) or "0"


def poly(x):
    return x if isinstance(x, Poly) else Poly.const(x)


class ExprEval:
    """Evaluate a Python expression AST into a Poly.

    env      : name -> Poly (parameters as atoms, inlined locals)
    consts   : dotted name -> Poly/number (module constants such as SQRT3, math.pi as atom)
    calls    : callable(call_node, evaluator) -> Poly or None (helper inlining / opaque atoms)
    Unknown names / calls become opaque atoms keyed by their normalised text when `opaque` is
    True, otherwise AnalysisError.
    """

    def __init__(self, env=None, consts=None, calls: Optional[Callable] = None, opaque=True):
        self.env = dict(env or {})
        self.consts = dict(consts or {})
        self.calls = calls
        self.opaque = opaque

    def ev(self, n: ast.AST) -> Poly:
        if isinstance(n, ast.Constant):
            if isinstance(n.value, bool) or not isinstance(n.value, (int, float)):
                raise AnalysisError(f"non-numeric constant {n.value!r}")
            return Poly.const(q3(n.value))
        if isinstance(n, ast.Name):
            if n.id in self.env:
                return poly(self.env[n.id])
            if n.id in self.consts:
                return poly(self.consts[n.id])
            return self._opaque(n)
        if isinstance(n, ast.Attribute):
            d = dotted(n)
            if d in self.env:
                return poly(self.env[d])
            if d in self.consts:
                return poly(self.consts[d])
            return self._opaque(n)
        if isinstance(n, ast.BinOp):
            l, r = self.ev(n.left), None
            if isinstance(n.op, ast.Pow):
                e = n.right
                if isinstance(e, ast.Constant) and isinstance(e.value, int):
                    return l ** e.value
                if isinstance(e, ast.Constant) and e.value == 0.5:
                    return self._sqrt(l, n)
                if isinstance(e, ast.Constant) and isinstance(e.value, float) and float(e.value).is_integer():
                    return l ** int(e.value)
                raise AnalysisError(f"power `{norm(n)}` outside fragment")
            r = self.ev(n.right)
            if isinstance(n.op, ast.Add):
                return l + r
            if isinstance(n.op, ast.Sub):
                return l - r
            if isinstance(n.op, ast.Mult):
                return l * r
            if isinstance(n.op, ast.Div):
                return l / r
            raise AnalysisError(f"operator in `{norm(n)}` outside fragment")
        if isinstance(n, ast.UnaryOp):
            v = self.ev(n.operand)
            if isinstance(n.op, ast.USub):
                return -v
            if isinstance(n.op, ast.UAdd):
                return v
            raise AnalysisError(f"unary `{norm(n)}` outside fragment")
        if isinstance(n, ast.Call):
            d = dotted(n.func)
            if d in ("math.sqrt", "sqrt", "np.sqrt", "numpy.sqrt") and len(n.args) == 1:
                return self._sqrt(self.ev(n.args[0]), n)
            if d in ("float", "int") and len(n.args) == 1:
                return self.ev(n.args[0])
            if self.calls is not None:
                r = self.calls(n, self)
                if r is not None:
                    return poly(r)
            return self._opaque(n)
        if isinstance(n, ast.Subscript):
            return self._opaque(n)
        raise AnalysisError(f"expression `{norm(n)[:60]}` outside fragment")

    def _sqrt(self, p: Poly, n):
        c = p.const_value()
        if c is not None:
            if c == Q3(3):
                return Poly.const(SQRT3)
            if c.b == 0 and c.a >= 0:
                num, den = c.a.numerator, c.a.denominator
                import math

                rn, rd = math.isqrt(num), math.isqrt(den)
                if rn * rn == num and rd * rd == den:
                    return Poly.const(F(rn, rd))
                rn3 = math.isqrt(num // 3) if num % 3 == 0 else -1
                if rn3 >= 0 and rn3 * rn3 * 3 == num and rd * rd == den:
                    return Poly.const(Q3(0, F(rn3, rd)))
        # perfect-square monomial
        if p.is_monomial():
            (k, v), = p.t.items()
            if all(e % 2 == 0 for _, e in k):
                sv = self._sqrt(Poly.const(v), n).const_value()
                return Poly({tuple((a, e // 2) for a, e in k): sv})
        return Poly.atom(("sqrt", repr(p)))

    def _opaque(self, n):
        if not self.opaque:
            raise AnalysisError(f"`{norm(n)[:60]}` is not in the evaluator's environment")
        return Poly.atom(norm(n))


def linear_map(exprs, variables, ev: ExprEval):
    """exprs: list of AST expressions affine in `variables` -> (matrix rows of Poly coeffs, offsets)."""
    rows, offs = [], []
    for e in exprs:
        p = ev.ev(e) if isinstance(e, ast.AST) else poly(e)
        row = []
        rest = p
        for v in variables:
            lo, hi = p.degree_in(v)
            if lo < 0 or hi > 1:
                raise AnalysisError(f"`{norm(e) if isinstance(e, ast.AST) else e}` is not affine in {v}")
            c = p.coeff(v, 1)
            if c.atoms() & set(variables):
                raise AnalysisError("cross term between index variables")
            row.append(c)
            rest = rest - c * Poly.atom(v)
        rows.append(row)
        offs.append(rest)
    return rows, offs


def matmul(A, B):
    return [[sum((A[i][k] * B[k][j] for k in range(len(B))), Poly()) for j in range(len(B[0]))] for i in range(len(A))]


def matvec(A, v):
    return [sum((A[i][k] * v[k] for k in range(len(v))), Poly()) for i in range(len(A))]


def mat_eq(A, B):
    return all(a == b for ra, rb in zip(A, B) for a, b in zip(ra, rb)) and len(A) == len(B)


def rot(k: int):
    """rotation by k*60 degrees, exact."""
    half = Q3(F(1, 2))
    s32 = Q3(0, F(1, 2))
    c = [Q3(1), half, -half, Q3(-1), -half, half][k % 6]
    s = [Q3(0), s32, s32, Q3(0), -s32, -s32][k % 6]
    return [[Poly.const(c), Poly.const(-s)], [Poly.const(s), Poly.const(c)]]


def rot90(k: int):
    c = [1, 0, -1, 0][k % 4]
    s = [0, 1, 0, -1][k % 4]
    return [[Poly.const(c), Poly.const(-s)], [Poly.const(s), Poly.const(c)]]


class Rat:
    """Exact rational function num/den over Poly; equality by cross multiplication."""
    __slots__ = ("n", "d")

    def __init__(self, n, d=None):
        self.n = poly(n)
        self.d = poly(d) if d is not None else Poly.const(1)
        if self.d.iszero():
            raise ZeroDivisionError("Rat with zero denominator")

    def __add__(self, o):
        o = rat(o)
        return Rat(self.n * o.d + o.n * self.d, self.d * o.d)

    __radd__ = __add__

    def __neg__(self):
        return Rat(-self.n, self.d)

    def __sub__(self, o):
        return self + (-rat(o))

    def __rsub__(self, o):
        return rat(o) - self

    def __mul__(self, o):
        o = rat(o)
        return Rat(self.n * o.n, self.d * o.d)

    __rmul__ = __mul__

    def __truediv__(self, o):
        o = rat(o)
        if o.n.iszero():
            raise ZeroDivisionError("division by zero rational function")
        return Rat(self.n * o.d, self.d * o.n)

    def __rtruediv__(self, o):
        return rat(o) / self

    def __pow__(self, k):
        if not isinstance(k, int):
            raise AnalysisError("non-integer power of a rational function")
        if k < 0:
            return Rat(self.d ** (-k), self.n ** (-k))
        return Rat(self.n ** k, self.d ** k)

    def __eq__(self, o):
        o = rat(o)
        return self.n * o.d == o.n * self.d

    def __hash__(self):
        return 0

    def __repr__(self):
        return f"({self.n}) / ({self.d})"


def rat(x):
    return x if isinstance(x, Rat) else Rat(x)


class RatEval:
    """Evaluate an expression AST to a Rat; names/calls/attributes not in env are opaque atoms."""

    def __init__(self, env=None, calls=None):
        self.env = dict(env or {})
        self.calls = calls

    def ev(self, n) -> Rat:
        if isinstance(n, ast.Constant) and isinstance(n.value, (int, float)) and not isinstance(n.value, bool):
            return Rat(Poly.const(q3(n.value)))
        if isinstance(n, ast.Name):
            if n.id in self.env:
                return rat(self.env[n.id])
            return Rat(Poly.atom(n.id))
        if isinstance(n, ast.BinOp):
            a = self.ev(n.left)
            if isinstance(n.op, ast.Pow):
                e = n.right
                if isinstance(e, ast.Constant) and isinstance(e.value, (int, float)) and float(e.value).is_integer():
                    return a ** int(e.value)
                if isinstance(e, ast.UnaryOp) and isinstance(e.op, ast.USub) and isinstance(e.operand, ast.Constant) and float(e.operand.value).is_integer():
                    return a ** (-int(e.operand.value))
                raise AnalysisError(f"power `{norm(n)}` outside fragment")
            b = self.ev(n.right)
            if isinstance(n.op, ast.Add):
                return a + b
            if isinstance(n.op, ast.Sub):
                return a - b
            if isinstance(n.op, ast.Mult):
                return a * b
            if isinstance(n.op, ast.Div):
                return a / b
            raise AnalysisError(f"operator in `{norm(n)}` outside fragment")
        if isinstance(n, ast.UnaryOp) and isinstance(n.op, (ast.USub, ast.UAdd)):
            v = self.ev(n.operand)
            return -v if isinstance(n.op, ast.USub) else v
        if isinstance(n, ast.Call):
            if self.calls is not None:
                r = self.calls(n, self)
                if r is not None:
                    return rat(r)
            return Rat(Poly.atom(norm(n)))
        if isinstance(n, (ast.Attribute, ast.Subscript)):
            d = norm(n)
            if d in self.env:
                return rat(self.env[d])
            return Rat(Poly.atom(d))
        raise AnalysisError(f"expression `{norm(n)[:60]}` outside fragment")
