"""Verdicts, known findings, evidence and replay files.

exit 0  every rule instance found, analysed and satisfied (or a listed known finding)
exit 1  + `VIOLATION property=<id> replay=<path>` per definite violation not listed as known
exit 2  + `ANALYSIS-ERROR property=<id> ...` anchor vanished / floor not met / outside fragment
"""
from __future__ import annotations

import ast
import json
import os
import sys
import time
from dataclasses import dataclass, field
from typing import Dict, List, Optional

from .index import AnalysisError, FuncInfo, norm

VERIF = os.path.dirname(os.path.dirname(os.path.abspath(__file__)))
EVIDENCE_DIR = os.path.join(VERIF, "evidence")
KNOWN_FILE = os.path.join(VERIF, "known_findings.json")


def where(obj, node=None):
    """(relpath, line, qualname) from a FuncInfo / (FuncInfo, node) / (relpath, line)."""
    if isinstance(obj, FuncInfo):
        n = node if node is not None else obj.node
        return obj.module.relpath, getattr(n, "lineno", getattr(obj.node, "lineno", 1)), obj.qualname
    if isinstance(obj, tuple):
        return obj + ("",) * (3 - len(obj))
    if hasattr(obj, "relpath"):
        return obj.relpath, getattr(node, "lineno", 0), ""
    return str(obj), 0, ""


@dataclass
class Instance:
    rule: str
    key: str
    file: str
    line: int
    qual: str
    status: str  # ok | violation | undecided | known
    msg: str = ""
    text: str = ""

    def as_dict(self):
        d = {"rule": self.rule, "key": self.key, "where": f"{self.file}:{self.line}", "status": self.status}
        if self.qual:
            d["function"] = self.qual
        if self.msg:
            d["msg"] = self.msg
        if self.text:
            d["text"] = self.text[:200]
        return d


class Rule:
    def __init__(self, check: "Check", rid: str, text: str, floor: int = 1, necessary: str = ""):
        self.check, self.id, self.text, self.floor, self.necessary = check, rid, text, floor, necessary
        self.instances: List[Instance] = []
        self.errors: List[str] = []

    def _add(self, status, key, at, msg="", node=None, text=""):
        f, l, q = where(at, node)
        if node is not None and not text:
            text = norm(node)
        inst = Instance(self.id, key, f, l, q, status, msg, text)
        self.instances.append(inst)
        return inst

    def ok(self, key, at, node=None, text="", msg=""):
        return self._add("ok", key, at, msg, node, text)

    def violate(self, key, at, msg, node=None, text=""):
        return self._add("violation", key, at, msg, node, text)

    def undecided(self, key, at, msg, node=None, text=""):
        return self._add("undecided", key, at, msg, node, text)

    def require(self, cond: bool, key, at, msg, node=None, text=""):
        """ok when cond else violation."""
        return self.ok(key, at, node, text) if cond else self.violate(key, at, msg, node, text)

    def error(self, msg):
        self.errors.append(msg)

    def count(self, status=None):
        return sum(1 for i in self.instances if status is None or i.status == status)


class Check:
    def __init__(self, prop_id: str, tier: str = "quick", only_rule: Optional[str] = None):
        self.id = prop_id
        self.tier = tier
        self.rules: List[Rule] = []
        self.t0 = time.time()
        self.only_rule = only_rule
        self.notes: List[str] = []
        self.extra: Dict[str, object] = {}
        self.assumptions: List[str] = []
        self.explanation = ""
        self.undecided_clauses: List[str] = []

    def rule(self, rid, text, floor=1, necessary="") -> Rule:
        r = Rule(self, rid, text, floor, necessary)
        self.rules.append(r)
        return r

    def run_rule(self, rid, text, fn, floor=1, necessary=""):
        """Run fn(rule); AnalysisError inside becomes an analysis error of that rule only."""
        r = self.rule(rid, text, floor, necessary)
        if self.only_rule and self.only_rule != rid:
            r.floor = 0
            return r
        try:
            fn(r)
        except AnalysisError as e:
            r.error(f"{type(e).__name__}: {e}")
        except RecursionError as e:  # pragma: no cover
            r.error(f"RecursionError: {e}")
        except Exception as e:  # a rule that trips over an unforeseen construct is an analysis error of that rule (exit 2), never a verdict
            import traceback
            tb = traceback.extract_tb(e.__traceback__)
            at = next((f"{os.path.basename(fr.filename)}:{fr.lineno}" for fr in reversed(tb) if "/armiverif/" in fr.filename), "?")
            r.error(f"rule crashed at {at}: {type(e).__name__}: {e}")
        return r

    # ------------------------------------------------------------------ finish
    def finish(self, write=True, quiet=False) -> int:
        known = _load_known()
        lines: List[str] = []
        n_viol = 0
        n_err = 0
        n_known = 0
        replay_dir = os.path.join(EVIDENCE_DIR, "replay")
        vio_idx = 0
        for r in self.rules:
            if self.only_rule and self.only_rule != r.id:
                continue
            decided = r.count("ok") + r.count("violation")
            if not r.errors and decided < r.floor:
                r.errors.append(
                    f"rule {r.id} matched {decided} instances, below the confirmed floor {r.floor} (anchors moved?)"
                )
            for e in r.errors:
                n_err += 1
                lines.append(f"ANALYSIS-ERROR property={self.id} rule={r.id} {e}")
            for inst in r.instances:
                if inst.status != "violation":
                    continue
                k = _known_match(known, self.id, r.id, inst.key)
                if k is not None:
                    inst.status = "known"
                    n_known += 1
                    lines.append(f"KNOWN-FINDING: property={self.id} rule={r.id} {inst.key} - {k.get('what', inst.msg)}")
                    continue
                n_viol += 1
                vio_idx += 1
                rp = os.path.join(replay_dir, f"{self.id}-{r.id}-{vio_idx}.json")
                if write:
                    os.makedirs(replay_dir, exist_ok=True)
                    with open(rp, "w") as f:
                        json.dump(
                            {"property": self.id, "rule": r.id, "rule_text": r.text, "instance": inst.as_dict(),
                             "replay": f"./check {self.id} --replay {rp}"},
                            f, indent=1)
                lines.append(f"VIOLATION property={self.id} replay={rp}")
                lines.append(f"  rule {r.id}: {r.text}")
                lines.append(f"  at {inst.file}:{inst.line} {inst.qual} [{inst.key}]")
                lines.append(f"  {inst.msg}")
                if inst.text:
                    lines.append(f"  construct: {inst.text[:160]}")
        wall = time.time() - self.t0
        code = 1 if n_viol else (2 if n_err else 0)
        if write:
            self._write_evidence(n_viol, n_err, n_known, wall)
        if not quiet:
            tot = sum(r.count() for r in self.rules)
            okc = sum(r.count("ok") for r in self.rules)
            und = sum(r.count("undecided") for r in self.rules)
            print(
                f"[{self.id}] rules={len(self.rules)} instances={tot} ok={okc} undecided={und} "
                f"known={n_known} violations={n_viol} analysis_errors={n_err} wall={wall:.2f}s"
            )
            for r in self.rules:
                print(f"  {r.id:<8} ok={r.count('ok'):<4} viol={r.count('violation'):<3} known={r.count('known'):<2} und={r.count('undecided'):<3} floor={r.floor:<3} {r.text[:90]}")
            for l in lines:
                print(l)
        sys.stdout.flush()
        return code

    def _write_evidence(self, n_viol, n_err, n_known, wall):
        os.makedirs(EVIDENCE_DIR, exist_ok=True)
        insts = [i for r in self.rules for i in r.instances]
        decided = [i for i in insts if i.status in ("ok", "violation", "known")]
        distinct = {(i.rule, i.key) for i in decided}
        per_rule = []
        for r in self.rules:
            per_rule.append(
                {
                    "rule": r.id,
                    "text": r.text,
                    "necessary_because": r.necessary,
                    "instances": r.count(),
                    "ok": r.count("ok"),
                    "violations": r.count("violation"),
                    "known_findings": r.count("known"),
                    "undecided": r.count("undecided"),
                    "floor": r.floor,
                    "errors": r.errors,
                }
            )
        samples = []
        seen_rules = set()
        for i in insts:  # one sample per rule first, then all non-ok
            if i.rule not in seen_rules:
                seen_rules.add(i.rule)
                samples.append(i.as_dict())
        for i in insts:
            if i.status != "ok" and i.as_dict() not in samples:
                samples.append(i.as_dict())
        obligations = len(decided)
        discharged = sum(1 for i in decided if i.status == "ok")
        ev = {
            "property_id": self.id,
            "tier": self.tier,
            "seed": int(os.environ.get("VERIF_SEED", "0") or 0),
            "level": "other",
            "coverage": {
                "explanation": self.explanation
                or "static conformance analysis of /repo's current source (ast): every rule instance is a "
                "structural necessary condition of the property, decided for all paths/inputs; the behaviour "
                "itself (numerical values, histories) is not decided",
                "evaluations": max(len(insts), 1),
                "distinct_nontrivial": len(distinct),
                "rule": "one evaluation = one rule instance (function / call site / table entry / path obligation) "
                "found in the tree and decided; distinct = distinct (rule, instance key); non-trivial = the "
                "instance was resolved on both sides of its comparison (undecided instances are not counted)",
                "obligations": obligations,
                "discharged": discharged,
                "checker_cmd": f"./check {self.id}" + (" --thorough" if self.tier == "thorough" else ""),
                "trusted_base": ["CPython ast parser", "armiverif engines (index/flow/units/exprnf)", "rule tables in armiverif/props and laws/"],
                "exhaustive": n_err == 0,
                "rules": per_rule,
                "samples": samples[:60],
                "undecided_clauses": self.undecided_clauses,
                "analysis_errors": n_err,
                "known_findings": n_known,
                **self.extra,
            },
            "assumptions": self.assumptions
            or [
                "Python semantics of the analysed statements as modelled by the engines; calls do not raise unless a rule says so",
                "callee resolution is by name and class hierarchy (no type checker available on this image)",
            ],
            "wall_s": round(wall, 3),
            "violations": n_viol,
        }
        with open(os.path.join(EVIDENCE_DIR, f"{self.id}.json"), "w") as f:
            json.dump(ev, f, indent=1, default=str)


def _load_known():
    if not os.path.exists(KNOWN_FILE):
        return []
    with open(KNOWN_FILE) as f:
        data = json.load(f)
    return [k for k in data.get("findings", []) if k.get("status") == "known"]


def _known_match(known, prop, rule, key):
    for k in known:
        if k.get("property") == prop and k.get("rule") == rule and k.get("key") == key:
            return k
    return None


class Only:
    """Reporter proxy: forwards only the instances whose key starts with one of `prefixes`.  Used when a property borrows the clause of
    another property's rule that concerns it, without repeating that rule's other clauses (in particular recorded findings, which are keyed
    by property and rule)."""

    def __init__(self, inner, prefixes):
        self.inner, self.prefixes = inner, tuple(prefixes)

    def _hit(self, key):
        return str(key).startswith(self.prefixes)

    def require(self, cond, key, *a, **k):
        return self.inner.require(cond, key, *a, **k) if self._hit(key) else None

    def violate(self, key, *a, **k):
        return self.inner.violate(key, *a, **k) if self._hit(key) else None

    def ok(self, key, *a, **k):
        return self.inner.ok(key, *a, **k) if self._hit(key) else None

    def undecided(self, key, *a, **k):
        return self.inner.undecided(key, *a, **k) if self._hit(key) else None

    def error(self, msg):
        return self.inner.error(msg)
