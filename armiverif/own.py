"""E2 - ownership / layering: who may write a protected location, who may call with a pattern."""
from __future__ import annotations

import ast
from typing import Callable, Dict, Iterable, Optional

from .astutil import iter_stores, Store
from .index import FuncInfo, Index, norm


def _store_index(idx: Index):
    cache = getattr(idx, "_store_cache", None)
    if cache is None:
        cache = {}
        for f in idx.all_funcs():
            for s in iter_stores(f.node, include_nested=True):
                if s.attr is not None:
                    cache.setdefault(s.attr, []).append((f, s))
        for m in idx.modules.values():
            fake = ast.Module(body=[st for st in m.tree.body if not isinstance(st, (ast.FunctionDef, ast.AsyncFunctionDef, ast.ClassDef))], type_ignores=[])
            fi = FuncInfo("<module>", "<module>", m, m.tree)
            for s in iter_stores(fake, include_nested=False):
                if s.attr is not None:
                    cache.setdefault(s.attr, []).append((fi, s))
        idx._store_cache = cache
    return cache


def all_stores(idx: Index, attr: str, include_nested=True):
    """Every store (assignment, aug, del, subscript store, mutating call, setattr) whose written
    location's last attribute is `attr`, in any function of the tree + module level code."""
    return list(_store_index(idx).get(attr, []))


def check_writers(rule, idx: Index, attr: str, allowed: Dict[str, str], relevant: Optional[Callable[[FuncInfo, Store], bool]] = None,
                  label: Optional[str] = None, kinds: Optional[Iterable[str]] = None, extra_ok: Optional[Callable[[FuncInfo, Store], Optional[str]]] = None):
    """allowed: {'module-relative qualname or fq': reason}.  Any other writer is a violation."""
    n = 0
    for f, s in all_stores(idx, attr):
        if s.chain is None or "." not in s.chain:
            if not (s.kind == "setattr"):
                continue
        if kinds is not None and s.kind not in kinds:
            continue
        if relevant is not None and not relevant(f, s):
            continue
        n += 1
        key = f"{label or attr}:{f.module.relpath}:{f.qualname}:{norm(s.stmt)[:80]}"
        if f.qualname in allowed or f.fq in allowed:
            rule.ok(key, f, node=s.stmt)
            continue
        why = extra_ok(f, s) if extra_ok else None
        if why:
            rule.ok(key, f, node=s.stmt, msg=why)
            continue
        rule.violate(key, f, f"`{norm(s.stmt)[:100]}` writes `{attr}` outside its owners ({', '.join(sorted(allowed))[:200]})", node=s.stmt)
    return n
