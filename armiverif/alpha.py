"""Alpha-normalisation of local variable names against the frozen binder lists (laws/locals.json).

Many rules name a local variable of an anchored function (`rotNum`, `childrenToSet`, ...). Renaming a local is a
behaviour-preserving edit, so before the rules run, a function whose locals were merely renamed is given its
reference names back: the locals of every function are listed in order of first binding; if today's list has the
same length as the reference list (taken from the tree the rules were confirmed on) but different names, the
position-wise map new -> old is applied (when it is a bijection and collides with nothing else in the function).
Any other difference (a local added, removed, bound in another order) leaves the function untouched - the rules
then see it as it is.  `tools/gen_locals.py` regenerates the reference.
"""
from __future__ import annotations

import ast
import json
import os

HERE = os.path.dirname(os.path.dirname(os.path.abspath(__file__)))
_REF = None


def _ref():
    global _REF
    if _REF is None:
        p = os.path.join(HERE, "laws", "locals.json")
        _REF = json.load(open(p)) if os.path.exists(p) else {}
    return _REF


def _own_nodes(fn):
    """nodes of fn's own scope in source order (not descending into nested defs / lambdas / classes; comprehension
    bodies are walked, their targets are recorded separately)"""
    stack = list(reversed(list(ast.iter_child_nodes(fn))))
    while stack:
        n = stack.pop()
        yield n
        if isinstance(n, (ast.FunctionDef, ast.AsyncFunctionDef, ast.Lambda, ast.ClassDef)):
            continue
        stack.extend(reversed(list(ast.iter_child_nodes(n))))


def binders(fn):
    """local names of fn in order of first binding (parameters, globals/nonlocals, comprehension variables excluded)"""
    a = fn.args
    params = {x.arg for x in a.posonlyargs + a.args + a.kwonlyargs}
    if a.vararg:
        params.add(a.vararg.arg)
    if a.kwarg:
        params.add(a.kwarg.arg)
    skip = set(params)
    comp = set()
    out = []
    for n in _own_nodes(fn):
        if isinstance(n, (ast.Global, ast.Nonlocal)):
            skip |= set(n.names)
        elif isinstance(n, ast.comprehension):
            for t in ast.walk(n.target):
                if isinstance(t, ast.Name):
                    comp.add(t.id)
    for n in _own_nodes(fn):
        name = None
        if isinstance(n, ast.Name) and isinstance(n.ctx, ast.Store):
            name = n.id
        elif isinstance(n, ast.ExceptHandler) and n.name:
            name = n.name
        elif isinstance(n, (ast.Import, ast.ImportFrom)):
            for al in n.names:
                skip.add((al.asname or al.name).split(".")[0])
            continue
        if name and name not in skip and name not in comp and name not in out:
            out.append(name)
    return out


def _rename(fn, mapping):
    def walk(node, shadow):
        for ch in ast.iter_child_nodes(node):
            sh = shadow
            if isinstance(ch, (ast.FunctionDef, ast.AsyncFunctionDef, ast.Lambda)):
                own = set()
                a = ch.args
                for x in a.posonlyargs + a.args + a.kwonlyargs + ([a.vararg] if a.vararg else []) + ([a.kwarg] if a.kwarg else []):
                    own.add(x.arg)
                if not isinstance(ch, ast.Lambda):
                    nl = {nm for s_ in ast.walk(ch) if isinstance(s_, ast.Nonlocal) for nm in s_.names}
                    for s_ in ast.walk(ch):
                        if isinstance(s_, ast.Name) and isinstance(s_.ctx, ast.Store) and s_.id not in nl:
                            own.add(s_.id)
                sh = shadow | own
            if isinstance(ch, ast.Name) and ch.id in mapping and ch.id not in sh:
                ch.id = mapping[ch.id]
            elif isinstance(ch, ast.ExceptHandler) and ch.name in mapping and ch.name not in sh:
                ch.name = mapping[ch.name]
            walk(ch, sh)
    walk(fn, frozenset())


def functions_with_keys(tree, relpath):
    """yield (key, FunctionDef); the key is relpath::qualname#k with k counting equal qualnames (property setters)"""
    seen = {}

    def rec(node, prefix):
        for ch in ast.iter_child_nodes(node):
            if isinstance(ch, (ast.FunctionDef, ast.AsyncFunctionDef)):
                q = f"{prefix}{ch.name}"
                k = seen.get(q, 0)
                seen[q] = k + 1
                yield f"{relpath}::{q}#{k}", ch
                yield from rec(ch, q + ".")
            elif isinstance(ch, ast.ClassDef):
                yield from rec(ch, f"{prefix}{ch.name}.")
            else:
                yield from rec(ch, prefix)
    yield from rec(tree, "")


def normalise(tree, relpath):
    ref = _ref()
    if not ref:
        return tree, 0
    n = 0
    for key, fn in functions_with_keys(tree, relpath):
        want = ref.get(key)
        if not want:
            continue
        have = binders(fn)
        if have == want or len(have) != len(want):
            continue
        mapping = {h: w for h, w in zip(have, want) if h != w}
        if len(set(mapping.values())) != len(mapping):
            continue
        # a renaming replaces names the reference does not know by names the function no longer has; if a "new" name is a reference name
        # (or a restored name is still in use) the locals were merely bound in another order - that is not a renaming
        if set(mapping) & set(want) or set(mapping.values()) & set(have):
            continue
        # the restored names must not capture anything else that occurs in the function
        others = {x.id for x in ast.walk(fn) if isinstance(x, ast.Name)} - set(have)
        a = fn.args
        others |= {x.arg for x in a.posonlyargs + a.args + a.kwonlyargs}
        if set(mapping.values()) & others:
            continue
        _rename(fn, mapping)
        n += 1
    return tree, n
