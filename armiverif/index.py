"""E0 - program index of /repo/armi built from source text only (stdlib ast).

Nothing from /repo is imported or executed.  The index knows modules, classes (with bases
resolved through imports and aliases, C3 linearisation), functions/methods, module-level
constants (with a small constant folder) and star imports.  Every rule asks the index for its
anchors; a missing anchor raises AnchorMissing (=> exit 2 "analysis broken", never a pass).

An *overlay* {relative path: source text} replaces files of the tree in memory; it is how the
self-test and the seeded-change runner analyse a modified tree without touching /repo.
"""
from __future__ import annotations

import ast
import functools
import hashlib
import os
from dataclasses import dataclass, field
from typing import Dict, Iterator, List, Optional, Tuple


from .canon import canonicalise  # noqa: E402
from .alpha import normalise as alpha_normalise  # noqa: E402

class AnalysisError(Exception):
    """The analysis cannot proceed (anchor vanished, construct outside the fragment)."""


class AnchorMissing(AnalysisError):
    pass


@functools.lru_cache(maxsize=20000)
def canon_text(text: str) -> str:
    """Canonical spelling (armiverif/canon.py) of a source fragment given as text; fragments that do not parse as
    statements/expressions are returned unchanged."""
    try:
        tree = ast.parse(text)
    except SyntaxError:
        return text
    from .canon import canonicalise

    try:
        return ast.unparse(canonicalise(tree))
    except Exception:  # pragma: no cover
        return text


class CanonText(str):
    """Text of a node of a CANONICALISED tree. Comparing it with (or searching it for) a fragment written in any
    equivalent spelling first brings that fragment to the canonical spelling, so a rule's reference fragments do not
    depend on operand order of commutative constants, keyword order, `if not` polarity etc."""
    __slots__ = ()

    def __eq__(self, other):
        if isinstance(other, str) and not isinstance(other, CanonText):
            return str.__eq__(self, other) or str.__eq__(self, canon_text(other))
        return str.__eq__(self, other)

    def __ne__(self, other):
        return not self.__eq__(other)

    __hash__ = str.__hash__

    def __contains__(self, item):
        if str.__contains__(self, item):
            return True
        if isinstance(item, str) and not isinstance(item, CanonText):
            c = canon_text(item)
            return c != item and str.__contains__(self, c)
        return False

    def startswith(self, prefix, *a):
        if str.startswith(self, prefix, *a):
            return True
        return isinstance(prefix, str) and str.startswith(self, canon_text(prefix), *a)

    def endswith(self, suffix, *a):
        if str.endswith(self, suffix, *a):
            return True
        return isinstance(suffix, str) and str.endswith(self, canon_text(suffix), *a)


def norm(node: ast.AST) -> str:
    """Normalised text of a node: formatting / comments / positions do not matter, and (the trees being canonical)
    neither does the spelling of what canon.py normalises."""
    if node is None:
        return CanonText("<absent>")  # e.g. the value of a store that has none (loop target, annotation): equal to no source text
    try:
        return CanonText(ast.unparse(node))
    except Exception:  # pragma: no cover
        return CanonText(ast.dump(node))


def dotted(node: ast.AST) -> Optional[str]:
    """'a.b.c' for a Name/Attribute chain, else None."""
    parts = []
    while isinstance(node, ast.Attribute):
        parts.append(node.attr)
        node = node.value
    if isinstance(node, ast.Name):
        parts.append(node.id)
        return ".".join(reversed(parts))
    return None


@dataclass
class FuncInfo:
    name: str
    qualname: str  # module-relative, e.g. 'Composite.add' or 'side'
    module: "ModuleInfo"
    node: ast.FunctionDef
    cls: Optional["ClassInfo"] = None

    @property
    def fq(self) -> str:
        return f"{self.module.name}.{self.qualname}"

    @property
    def short(self) -> str:
        return f"{self.module.relpath}:{self.qualname}"

    def params(self) -> List[str]:
        a = self.node.args
        return [x.arg for x in a.posonlyargs + a.args]

    def __repr__(self):
        return f"<Func {self.fq}>"


@dataclass
class ClassInfo:
    name: str
    module: "ModuleInfo"
    node: ast.ClassDef
    base_exprs: List[str] = field(default_factory=list)
    bases: List[Optional["ClassInfo"]] = field(default_factory=list)  # None = external
    methods: Dict[str, FuncInfo] = field(default_factory=dict)
    attrs: Dict[str, ast.AST] = field(default_factory=dict)  # class-level assignments
    _mro: Optional[List["ClassInfo"]] = None

    @property
    def fq(self) -> str:
        return f"{self.module.name}.{self.name}"

    def mro(self) -> List["ClassInfo"]:
        if self._mro is None:
            self._mro = _c3(self)
        return self._mro

    def resolve(self, meth: str) -> Optional[FuncInfo]:
        for c in self.mro():
            if meth in c.methods:
                return c.methods[meth]
        return None

    def resolve_after(self, owner: "ClassInfo", meth: str) -> Optional[FuncInfo]:
        """super() semantics: next definition of meth after `owner` in self's MRO."""
        seen = False
        for c in self.mro():
            if seen and meth in c.methods:
                return c.methods[meth]
            if c is owner:
                seen = True
        return None

    def lookup_attr(self, name: str) -> Optional[Tuple["ClassInfo", ast.AST]]:
        for c in self.mro():
            if name in c.attrs:
                return c, c.attrs[name]
        return None

    def is_subclass_of(self, other: "ClassInfo") -> bool:
        return other in self.mro()

    def has_external_base_named(self, name: str) -> bool:
        for c in self.mro():
            for b, e in zip(c.bases, c.base_exprs):
                if b is None and e.split(".")[-1] == name:
                    return True
        return False

    def __repr__(self):
        return f"<Class {self.fq}>"

    def __hash__(self):
        return id(self)

    def __eq__(self, o):
        return self is o


def _c3(cls: ClassInfo) -> List[ClassInfo]:
    def merge(seqs):
        res = []
        seqs = [list(s) for s in seqs if s]
        while seqs:
            for s in seqs:
                head = s[0]
                if not any(head in t[1:] for t in seqs):
                    break
            else:  # inconsistent hierarchy: fall back to DFS order
                head = seqs[0][0]
            res.append(head)
            seqs = [[x for x in s if x is not head] for s in seqs]
            seqs = [s for s in seqs if s]
        return res

    bases = [b for b in cls.bases if b is not None]
    return [cls] + merge([b.mro() for b in bases] + [bases])


@dataclass
class ModuleInfo:
    name: str  # armi.reactor.composites
    relpath: str  # armi/reactor/composites.py
    path: str
    src: str
    tree: ast.Module
    is_pkg: bool = False
    classes: Dict[str, ClassInfo] = field(default_factory=dict)
    functions: Dict[str, FuncInfo] = field(default_factory=dict)
    consts: Dict[str, ast.AST] = field(default_factory=dict)  # module-level NAME = expr (last wins)
    const_all: Dict[str, List[ast.stmt]] = field(default_factory=dict)  # every statement touching NAME
    imports: Dict[str, str] = field(default_factory=dict)  # local name -> dotted target
    star_imports: List[str] = field(default_factory=list)
    _parents: Optional[Dict[ast.AST, ast.AST]] = None

    def parents(self) -> Dict[ast.AST, ast.AST]:
        if self._parents is None:
            p = {}
            for n in ast.walk(self.tree):
                for c in ast.iter_child_nodes(n):
                    p[c] = n
            self._parents = p
        return self._parents

    def all_funcs(self) -> Iterator[FuncInfo]:
        yield from self.functions.values()
        for c in self.classes.values():
            yield from c.methods.values()

    def __repr__(self):
        return f"<Module {self.name}>"

    def __hash__(self):
        return id(self)

    def __eq__(self, o):
        return self is o


class Index:
    def __init__(self, root: str = "/repo", overlay: Optional[Dict[str, str]] = None, include_tests=False):
        self.root = root
        self.overlay = dict(overlay or {})
        self.modules: Dict[str, ModuleInfo] = {}
        self.by_relpath: Dict[str, ModuleInfo] = {}
        self.classes_by_name: Dict[str, List[ClassInfo]] = {}
        self.parse_errors: List[str] = []
        self.include_tests = include_tests
        self._load()
        self._link()

    # ------------------------------------------------------------------ loading
    def _iter_files(self):
        base = os.path.join(self.root, "armi")
        if not os.path.isdir(base):
            raise AnchorMissing(f"{base} is not a directory")
        seen = set()
        for dp, dn, fn in os.walk(base):
            dn.sort()
            if not self.include_tests and (os.sep + "tests") in dp.replace(base, "", 1):
                continue
            for f in sorted(fn):
                if f.endswith(".py"):
                    full = os.path.join(dp, f)
                    rel = os.path.relpath(full, self.root)
                    seen.add(rel)
                    yield rel, full
        for rel in self.overlay:
            if rel not in seen and rel.endswith(".py") and rel.startswith("armi/"):
                yield rel, os.path.join(self.root, rel)

    def read(self, rel: str) -> str:
        """Text of a file of the tree (overlay first)."""
        if rel in self.overlay:
            return self.overlay[rel]
        p = os.path.join(self.root, rel)
        if not os.path.exists(p):
            raise AnchorMissing(f"file {rel} not found")
        with open(p, encoding="utf-8", errors="replace") as f:
            return f.read()

    def _load(self):
        for rel, full in self._iter_files():
            if not self.include_tests and "/tests/" in rel:
                continue
            src = self.read(rel)
            try:
                tree = canonicalise(ast.parse(src, filename=rel))
                tree, _ = alpha_normalise(tree, rel)
            except SyntaxError as e:
                self.parse_errors.append(f"{rel}: {e}")
                continue
            name = rel[:-3].replace("/", ".")
            is_pkg = name.endswith(".__init__")
            if is_pkg:
                name = name[: -len(".__init__")]
            m = ModuleInfo(name=name, relpath=rel, path=full, src=src, tree=tree, is_pkg=is_pkg)
            self.modules[name] = m
            self.by_relpath[rel] = m
            self._scan(m)

    def _scan(self, m: ModuleInfo):
        pkg = m.name if m.is_pkg else m.name.rpartition(".")[0]

        def absmod(level, mod):
            if level == 0:
                return mod or ""
            parts = pkg.split(".")
            if level > 1:
                parts = parts[: -(level - 1)]
            return ".".join(parts + ([mod] if mod else []))

        def scan_body(body):
            for st in body:
                if isinstance(st, ast.Import):
                    for a in st.names:
                        if a.asname:
                            m.imports[a.asname] = a.name
                        else:
                            m.imports[a.name.split(".")[0]] = a.name.split(".")[0]
                elif isinstance(st, ast.ImportFrom):
                    src_mod = absmod(st.level, st.module)
                    for a in st.names:
                        if a.name == "*":
                            m.star_imports.append(src_mod)
                        else:
                            m.imports[a.asname or a.name] = f"{src_mod}.{a.name}"
                elif isinstance(st, (ast.FunctionDef, ast.AsyncFunctionDef)):
                    m.functions[st.name] = FuncInfo(st.name, st.name, m, st)
                elif isinstance(st, ast.ClassDef):
                    ci = ClassInfo(st.name, m, st, base_exprs=[norm(b) for b in st.bases])
                    for s in st.body:
                        if isinstance(s, (ast.FunctionDef, ast.AsyncFunctionDef)):
                            ci.methods[s.name] = FuncInfo(s.name, f"{st.name}.{s.name}", m, s, ci)
                        elif isinstance(s, ast.Assign):
                            for t in s.targets:
                                if isinstance(t, ast.Name):
                                    ci.attrs[t.id] = s.value
                        elif isinstance(s, ast.AnnAssign) and isinstance(s.target, ast.Name) and s.value is not None:
                            ci.attrs[s.target.id] = s.value
                    m.classes[st.name] = ci
                    self.classes_by_name.setdefault(st.name, []).append(ci)
                elif isinstance(st, ast.Assign):
                    for t in st.targets:
                        if isinstance(t, ast.Name):
                            m.consts[t.id] = st.value
                            m.const_all.setdefault(t.id, []).append(st)
                        elif isinstance(t, (ast.Tuple, ast.List)):
                            for e in t.elts:
                                if isinstance(e, ast.Name):
                                    m.const_all.setdefault(e.id, []).append(st)
                elif isinstance(st, ast.AnnAssign) and isinstance(st.target, ast.Name) and st.value is not None:
                    m.consts[st.target.id] = st.value
                    m.const_all.setdefault(st.target.id, []).append(st)
                elif isinstance(st, ast.AugAssign) and isinstance(st.target, ast.Name):
                    m.const_all.setdefault(st.target.id, []).append(st)
                elif isinstance(st, ast.Expr) and isinstance(st.value, ast.Call):
                    d = dotted(st.value.func)
                    if d and "." in d:
                        m.const_all.setdefault(d.split(".")[0], []).append(st)
                elif isinstance(st, (ast.If, ast.Try)):
                    # conditional imports / definitions at module level
                    for sub in ("body", "orelse", "finalbody"):
                        scan_body(getattr(st, sub, []) or [])
                    for h in getattr(st, "handlers", []) or []:
                        scan_body(h.body)

        scan_body(m.tree.body)

    def _link(self):
        for m in self.modules.values():
            for c in m.classes.values():
                c.bases = [self.resolve_class_expr(m, e) for e in c.base_exprs]

    # ------------------------------------------------------------------ resolution
    def resolve_name(self, m: ModuleInfo, dotted_name: str, _depth=0):
        """Resolve a dotted name used in module m to a ModuleInfo / ClassInfo / FuncInfo /
        ('const', module, name) / None."""
        if _depth > 8:
            return None
        parts = dotted_name.split(".")
        head = parts[0]
        cur = None
        if head in m.classes:
            cur = m.classes[head]
        elif head in m.functions:
            cur = m.functions[head]
        elif head in m.imports:
            cur = self._resolve_abs(m.imports[head], _depth + 1)
        elif head in m.consts:
            cur = ("const", m, head)
        else:
            for sm in m.star_imports:
                mod = self.modules.get(sm)
                if mod is not None:
                    r = self.resolve_name(mod, head, _depth + 1)
                    if r is not None:
                        cur = r
                        break
        for p in parts[1:]:
            if cur is None:
                return None
            cur = self._member(cur, p, _depth + 1)
        return cur

    def _member(self, obj, name, _depth):
        if isinstance(obj, ModuleInfo):
            sub = self.modules.get(f"{obj.name}.{name}")
            r = self.resolve_name(obj, name, _depth)
            return r if r is not None else sub
        if isinstance(obj, ClassInfo):
            f = obj.resolve(name)
            if f is not None:
                return f
            a = obj.lookup_attr(name)
            if a is not None:
                return ("classattr", a[0], name)
        return None

    def _resolve_abs(self, dotted_name: str, _depth=0):
        parts = dotted_name.split(".")
        # longest module prefix
        for k in range(len(parts), 0, -1):
            mod = self.modules.get(".".join(parts[:k]))
            if mod is not None:
                cur = mod
                for p in parts[k:]:
                    cur = self._member(cur, p, _depth + 1)
                    if cur is None:
                        return None
                return cur
        return None

    def resolve_class_expr(self, m: ModuleInfo, expr: str) -> Optional[ClassInfo]:
        if not all(p.isidentifier() for p in expr.split(".")):
            return None
        r = self.resolve_name(m, expr)
        return r if isinstance(r, ClassInfo) else None

    def name_bound_in_module(self, m: ModuleInfo, name: str, _depth=0) -> Optional[bool]:
        """True when `name` is bound at module level of m (definition, assignment, import - also of
        external packages - or through a star import); None when a star import of a module outside
        the tree makes it unknowable; False otherwise."""
        if name in m.imports or name in m.consts or name in m.functions or name in m.classes or name in m.const_all:
            return True
        unknown = False
        if _depth < 6:
            for sm in m.star_imports:
                mod = self.modules.get(sm)
                if mod is None:
                    unknown = True
                    continue
                r = self.name_bound_in_module(mod, name, _depth + 1)
                if r:
                    return True
                if r is None:
                    unknown = True
        return None if unknown else False

    # ------------------------------------------------------------------ anchors
    def module(self, name: str) -> ModuleInfo:
        m = self.modules.get(name)
        if m is None:
            raise AnchorMissing(f"module {name} not found")
        return m

    def cls(self, fq: str) -> ClassInfo:
        """'armi.reactor.composites.Composite' or unique short name 'Composite'."""
        if "." in fq:
            mod, _, cn = fq.rpartition(".")
            m = self.module(mod)
            if cn not in m.classes:
                raise AnchorMissing(f"class {fq} not found")
            return m.classes[cn]
        cands = self.classes_by_name.get(fq, [])
        if len(cands) != 1:
            raise AnchorMissing(f"class {fq}: {len(cands)} candidates")
        return cands[0]

    def func(self, fq: str) -> FuncInfo:
        """'armi.utils.hexagon.side' or 'armi.reactor.composites.Composite.add'."""
        parts = fq.split(".")
        for k in range(len(parts) - 1, 0, -1):
            m = self.modules.get(".".join(parts[:k]))
            if m is None:
                continue
            rest = parts[k:]
            if len(rest) == 1 and rest[0] in m.functions:
                return m.functions[rest[0]]
            if len(rest) == 2 and rest[0] in m.classes and rest[1] in m.classes[rest[0]].methods:
                return m.classes[rest[0]].methods[rest[1]]
            break
        raise AnchorMissing(f"function {fq} not found")

    def method(self, cls_fq: str, name: str, inherited=False) -> FuncInfo:
        c = self.cls(cls_fq)
        f = c.resolve(name) if inherited else c.methods.get(name)
        if f is None:
            raise AnchorMissing(f"method {cls_fq}.{name} not found")
        return f

    def subclasses(self, base: ClassInfo, strict=True) -> List[ClassInfo]:
        out = []
        for m in self.modules.values():
            for c in m.classes.values():
                if base in c.mro() and (not strict or c is not base):
                    out.append(c)
        return sorted(out, key=lambda c: c.fq)

    def all_funcs(self) -> Iterator[FuncInfo]:
        for m in self.modules.values():
            yield from m.all_funcs()

    def all_classes(self) -> Iterator[ClassInfo]:
        for m in self.modules.values():
            yield from m.classes.values()

    def const(self, module: str, name: str) -> ast.AST:
        m = self.module(module)
        if name not in m.consts:
            raise AnchorMissing(f"constant {module}.{name} not found")
        return m.consts[name]

    def digest(self, relpaths=None) -> str:
        h = hashlib.sha256()
        for rel in sorted(relpaths or self.by_relpath):
            h.update(rel.encode())
            h.update(self.by_relpath[rel].src.encode() if rel in self.by_relpath else b"")
        return h.hexdigest()[:16]

    # ------------------------------------------------------------------ constant folding
    def fold(self, m: ModuleInfo, node: ast.AST, env=None, _depth=0, cls: "ClassInfo" = None):
        """Fold a literal-ish expression to a Python value.  Raises AnalysisError when the
        expression leaves the fragment (names of other module constants, tuples/lists/dicts/sets
        of literals, + concatenation, unary minus, simple arithmetic, str.format-free)."""
        env = env or {}
        if _depth > 20:
            raise AnalysisError("constant folding too deep")
        f = lambda n: self.fold(m, n, env, _depth + 1, cls)  # noqa: E731
        if isinstance(node, ast.Constant):
            return node.value
        if isinstance(node, ast.Tuple):
            return tuple(f(e) for e in node.elts)
        if isinstance(node, ast.List):
            return [f(e) for e in node.elts]
        if isinstance(node, ast.Set):
            return {f(e) for e in node.elts}
        if isinstance(node, ast.Dict):
            out = {}
            for k, v in zip(node.keys, node.values):
                if k is None:
                    out.update(f(v))
                else:
                    out[f(k)] = f(v)
            return out
        if isinstance(node, ast.UnaryOp) and isinstance(node.op, (ast.USub, ast.UAdd)):
            v = f(node.operand)
            return -v if isinstance(node.op, ast.USub) else v
        if isinstance(node, ast.BinOp):
            l, r = f(node.left), f(node.right)
            ops = {
                ast.Add: lambda: l + r,
                ast.Sub: lambda: l - r,
                ast.Mult: lambda: l * r,
                ast.Div: lambda: l / r,
                ast.FloorDiv: lambda: l // r,
                ast.Mod: lambda: l % r,
                ast.Pow: lambda: l**r,
                ast.BitOr: lambda: l | r,
            }
            if type(node.op) in ops:
                return ops[type(node.op)]()
        if isinstance(node, ast.Name):
            if node.id in env:
                return env[node.id]
            if cls is not None:
                a = cls.lookup_attr(node.id)
                if a is not None:
                    return self.fold(a[0].module, a[1], None, _depth + 1, a[0])
            r = self.resolve_name(m, node.id)
            if isinstance(r, tuple) and r[0] == "const":
                return self.fold(r[1], r[1].consts[r[2]], None, _depth + 1)
        if isinstance(node, ast.Attribute):
            d = dotted(node)
            if d and cls is not None and d.split(".")[0] in ("self", "cls") and d.count(".") == 1:
                a = cls.lookup_attr(node.attr)
                if a is not None:
                    return self.fold(a[0].module, a[1], None, _depth + 1, a[0])
            if d:
                r = self.resolve_name(m, d)
                if isinstance(r, tuple) and r[0] == "const":
                    return self.fold(r[1], r[1].consts[r[2]], None, _depth + 1)
                if isinstance(r, tuple) and r[0] == "classattr":
                    return self.fold(r[1].module, r[1].attrs[r[2]], None, _depth + 1)
        if isinstance(node, ast.Call):
            d = dotted(node.func)
            if d in ("tuple", "list", "set", "frozenset", "sorted") and len(node.args) == 1 and not node.keywords:
                v = f(node.args[0])
                return {"tuple": tuple, "list": list, "set": set, "frozenset": frozenset, "sorted": sorted}[d](v)
            if d in ("set", "list", "tuple", "frozenset") and not node.args and not node.keywords:
                return {"set": set, "list": list, "tuple": tuple, "frozenset": frozenset}[d]()
            if d == "dict" and not node.args:
                return {k.arg: f(k.value) for k in node.keywords}
            if d == "range" and not node.keywords:
                return range(*[f(a) for a in node.args])
            if d == "len" and len(node.args) == 1:
                return len(f(node.args[0]))
            if d in ("str", "int", "float", "abs", "max", "min", "sum") and node.args and not node.keywords:
                return {"str": str, "int": int, "float": float, "abs": abs, "max": max, "min": min, "sum": sum}[d](*[f(a) for a in node.args])
            if d == "struct.calcsize" and len(node.args) == 1:
                import struct as _struct

                return _struct.calcsize(f(node.args[0]))
            if isinstance(node.func, ast.Attribute) and node.func.attr == "format" and not node.keywords:
                base = f(node.func.value)
                if isinstance(base, str):
                    return base.format(*[f(a) for a in node.args])
        raise AnalysisError(f"cannot fold `{norm(node)[:80]}` in {m.relpath}")


def load_index(root="/repo", overlay=None) -> Index:
    idx = Index(root, overlay)
    if idx.parse_errors:
        raise AnalysisError("syntax errors in tree: " + "; ".join(idx.parse_errors[:3]))
    return idx
