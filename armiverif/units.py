"""E4 - quantity calculus: dimension and role typing of formulas.

Abstract interpretation of one function body in the free abelian group of units with role
generators.  Abstract value: a monomial (Unit), TOP (unknown), ZERO (numeric zero literal, neutral
under +/-), or a python tuple of abstract values (for unpacking).  Collections are lifted
element-wise: a list / dict / array of N has unit N.

+/-/comparison/min/max of two KNOWN different units is a *definite conflict*.  Unknowns propagate
silently.  Sources (method results, attributes, parameters, constants) come from a law table given
by the property module; sinks are `return` values and arguments of chosen calls.
"""
from __future__ import annotations

import ast
from fractions import Fraction as F
from typing import Callable, Dict, List, Optional, Tuple

from .index import dotted, norm


class Unit:
    __slots__ = ("d",)

    def __init__(self, d=None):
        self.d = {k: F(v) for k, v in (d or {}).items() if v}

    def __mul__(self, o):
        d = dict(self.d)
        for k, v in o.d.items():
            d[k] = d.get(k, 0) + v
        return Unit(d)

    def __truediv__(self, o):
        return self * o ** -1

    def __pow__(self, e):
        return Unit({k: v * F(e) for k, v in self.d.items()})

    def __eq__(self, o):
        return isinstance(o, Unit) and self.d == o.d

    def __hash__(self):
        return hash(tuple(sorted(self.d.items())))

    def exp(self, g):
        return self.d.get(g, F(0))

    def without(self, *gens):
        return Unit({k: v for k, v in self.d.items() if k not in gens})

    def __repr__(self):
        return "·".join(f"{k}^{v}" if v != 1 else k for k, v in sorted(self.d.items())) or "1"


def U(s: str) -> Unit:
    d = {}
    for tok in s.split():
        if "^" in tok:
            k, e = tok.split("^")
            d[k] = d.get(k, 0) + F(e)
        elif tok != "1":
            d[tok] = d.get(tok, 0) + 1
    return Unit(d)


class LitUnit(Unit):
    """dimensionless numeric literal: equal to ONE in arithmetic, but yields to the other side at control-flow merges
    (`x = 1.0` in one branch, `x = <quantity>` in the other: a default, not a contradiction)."""


ONE = Unit()
LIT = LitUnit()
TOP = "⊤"
ZERO = "0"


def known(x):
    return isinstance(x, Unit)


class Law:
    """Sources for one analysis."""

    def __init__(self, methods=None, attrs=None, names=None, consts=None, call_hook=None, attr_suffix=None, subscript_hook=None):
        self.methods: Dict[str, object] = methods or {}  # method/function last name -> Unit (call result)
        self.attrs: Dict[str, object] = attrs or {}  # full dotted text -> Unit
        self.attr_suffix: Dict[str, object] = attr_suffix or {}  # '.p.massHmBOL' style suffix -> Unit
        self.names: Dict[str, object] = names or {}  # initial environment
        self.consts: Dict[str, object] = consts or {}  # dotted constant -> Unit
        self.call_hook: Optional[Callable] = call_hook  # (call, evaluator) -> value or None
        self.subscript_hook: Optional[Callable] = subscript_hook


PURE_LIFT = {"array", "asarray", "abs", "float", "list", "tuple", "sorted", "reversed", "copy", "deepcopy", "fabs", "flatten", "tolist", "values", "squeeze", "ravel",
             "transpose", "cumsum", "flat", "astype", "real", "round", "ceil", "floor", "int", "set", "iter", "next", "fromiter", "vstack", "hstack", "concatenate", "nan_to_num", "average", "median"}
JOIN_ARGS = {"min", "max", "sum", "mean", "maximum", "minimum", "where", "append", "hypot", "fsum", "nansum", "amax", "amin"}
DIMLESS_FUNCS = {"len", "range", "exp", "log", "log10", "sin", "cos", "tan", "arctan2", "atan2", "isclose", "allclose", "bool", "isinstance", "any", "all", "ones", "ones_like", "arange", "sign", "isnan", "count"}
ZERO_FUNCS = {"zeros", "zeros_like", "empty", "defaultdict", "OrderedDict", "Counter"}


class Evaluator:
    def __init__(self, law: Law, env=None):
        self.law = law
        self.env: Dict[str, object] = dict(law.names)
        if env:
            self.env.update(env)
        self.conflicts: List[Tuple[ast.AST, object, object, str]] = []
        self.returns: List[Tuple[ast.AST, object]] = []
        self.sinks: List[Tuple[ast.Call, List[object], Dict[str, object]]] = []
        self.sink_names: set = set()
        self.yields: List[Tuple[ast.AST, object]] = []

    # ------------------------------------------------------------------ lattice
    def flat(self, v):
        """collapse tuples to one element unit"""
        if isinstance(v, tuple):
            r = ZERO
            for x in v:
                r = self.merge(r, self.flat(x))
            return r
        return v

    def merge(self, a, b):
        """control-flow / collection merge: differing known units -> TOP (no conflict)"""
        a, b = self.flat(a), self.flat(b)
        if a == ZERO:
            return b
        if b == ZERO:
            return a
        if isinstance(a, LitUnit) and not isinstance(b, LitUnit):
            return b
        if isinstance(b, LitUnit):
            return a
        if a == TOP or b == TOP:
            return TOP
        return a if a == b else TOP

    def same(self, a, b, node, what):
        """operands that must agree (+, -, comparison): differing known units -> conflict"""
        a, b = self.flat(a), self.flat(b)
        if a == ZERO:
            return b
        if b == ZERO:
            return a
        if a == TOP or b == TOP:
            return TOP
        if a != b:
            self.conflicts.append((node, a, b, what))
            return TOP
        return a

    def mul(self, a, b, div=False):
        a, b = self.flat(a), self.flat(b)
        if a == ZERO:
            return ZERO
        if b == ZERO:
            return ZERO if not div else TOP
        if a == TOP or b == TOP:
            return TOP
        return a / b if div else a * b

    # ------------------------------------------------------------------ expressions
    def e(self, n):
        if n is None:
            return TOP
        if isinstance(n, ast.Constant):
            if n.value is None:
                return ZERO  # "nothing yet": neutral at merges and sums
            if isinstance(n.value, bool) or isinstance(n.value, str):
                return TOP if isinstance(n.value, str) else ONE
            if isinstance(n.value, (int, float)):
                return ZERO if n.value == 0 else LIT
            return TOP
        if isinstance(n, ast.Name):
            return self.env.get(n.id, self.law.consts.get(n.id, TOP))
        if isinstance(n, ast.Attribute):
            d = dotted(n)
            if d is not None:
                if d in self.env:
                    return self.env[d]
                if d in self.law.attrs:
                    return self.law.attrs[d]
                if d in self.law.consts:
                    return self.law.consts[d]
                for suf, u in self.law.attr_suffix.items():
                    if d.endswith(suf):
                        return u
            if d is None and ("." + n.attr) in self.law.attr_suffix:
                return self.law.attr_suffix["." + n.attr]
            if n.attr in ("T", "real", "flat"):
                return self.e(n.value)
            if n.attr in ("size", "shape", "ndim"):
                return ONE
            return TOP
        if isinstance(n, ast.BinOp):
            if isinstance(n.op, (ast.Add, ast.Sub)):
                return self.same(self.e(n.left), self.e(n.right), n, "+/-")
            if isinstance(n.op, ast.Mult):
                return self.mul(self.e(n.left), self.e(n.right))
            if isinstance(n.op, (ast.Div, ast.FloorDiv)):
                return self.mul(self.e(n.left), self.e(n.right), div=True)
            if isinstance(n.op, ast.Pow):
                a = self.flat(self.e(n.left))
                if not known(a):
                    return a
                ex = n.right
                if isinstance(ex, ast.UnaryOp) and isinstance(ex.op, ast.USub) and isinstance(ex.operand, ast.Constant):
                    return a ** (-F(str(ex.operand.value)))
                if isinstance(ex, ast.Constant) and isinstance(ex.value, (int, float)):
                    return a ** F(str(ex.value))
                if isinstance(ex, ast.BinOp) and isinstance(ex.op, ast.Div) and isinstance(ex.left, ast.Constant) and isinstance(ex.right, ast.Constant):
                    return a ** F(ex.left.value, ex.right.value)
                return ONE if a == ONE else TOP
            if isinstance(n.op, ast.Mod):
                return self.e(n.left)
            if isinstance(n.op, ast.MatMult):
                return self.mul(self.e(n.left), self.e(n.right))
            return TOP
        if isinstance(n, ast.UnaryOp):
            if isinstance(n.op, ast.Not):
                self.e(n.operand)
                return ONE
            return self.e(n.operand)
        if isinstance(n, ast.IfExp):
            self.e(n.test)
            return self.merge(self.e(n.body), self.e(n.orelse))
        if isinstance(n, ast.BoolOp):
            vals = [self.e(v) for v in n.values]
            if isinstance(n.op, ast.Or) and len(vals) == 2 and self.flat(vals[1]) == ONE and known(self.flat(vals[0])):
                return self.flat(vals[0])  # `x or 1.0` default idiom
            r = ZERO
            for v in vals:
                r = self.merge(r, v)
            return r
        if isinstance(n, ast.Compare):
            l = self.e(n.left)
            for op, c in zip(n.ops, n.comparators):
                rr = self.e(c)
                if isinstance(op, (ast.Lt, ast.LtE, ast.Gt, ast.GtE, ast.Eq, ast.NotEq)):
                    self.same(l, rr, n, "comparison")
                l = rr
            return ONE
        if isinstance(n, (ast.ListComp, ast.GeneratorExp, ast.SetComp)):
            saved = dict(self.env)
            for g in n.generators:
                self.bind_iter(g.target, g.iter)
                for c in g.ifs:
                    self.e(c)
            v = self.e(n.elt)
            self.env = saved
            return self.flat(v) if not isinstance(v, tuple) else v
        if isinstance(n, ast.DictComp):
            saved = dict(self.env)
            for g in n.generators:
                self.bind_iter(g.target, g.iter)
                for c in g.ifs:
                    self.e(c)
            v = self.e(n.value)
            self.env = saved
            return self.flat(v)
        if isinstance(n, ast.Subscript):
            if self.law.subscript_hook is not None:
                r = self.law.subscript_hook(n, self)
                if r is not None:
                    return r
            d = dotted(n.value)
            base = self.e(n.value)
            if isinstance(base, tuple):
                if isinstance(n.slice, ast.Constant) and isinstance(n.slice.value, int) and -len(base) <= n.slice.value < len(base):
                    return base[n.slice.value]
                return self.flat(base)
            return base
        if isinstance(n, ast.Tuple):
            return tuple(self.e(x) for x in n.elts)
        if isinstance(n, (ast.List, ast.Set)):
            r = ZERO
            for x in n.elts:
                r = self.merge(r, self.e(x))
            return r
        if isinstance(n, ast.Dict):
            r = ZERO
            for x in n.values:
                r = self.merge(r, self.e(x))
            return r
        if isinstance(n, ast.Starred):
            return self.e(n.value)
        if isinstance(n, ast.Call):
            return self.call(n)
        if isinstance(n, ast.Lambda):
            return TOP
        if isinstance(n, ast.JoinedStr):
            return TOP
        if isinstance(n, ast.NamedExpr):
            v = self.e(n.value)
            self.bind(n.target, v)
            return v
        return TOP

    def call(self, n: ast.Call):
        f = n.func
        name = f.attr if isinstance(f, ast.Attribute) else getattr(f, "id", None)
        if self.law.call_hook is not None:
            r = self.law.call_hook(n, self)
            if r is not None:
                return r
        argv = [self.e(a) for a in n.args]
        kwv = {k.arg: self.e(k.value) for k in n.keywords}
        if name in self.sink_names:
            self.sinks.append((n, argv, kwv))
        if name in ("dict", "list", "set", "tuple") and not n.args and not n.keywords:
            return ZERO  # empty container
        if name in self.law.methods:
            return self.law.methods[name]
        d = dotted(f)
        if d in self.law.methods:
            return self.law.methods[d]
        if name in ("sqrt",):
            a = self.flat(argv[0]) if argv else TOP
            return a ** F(1, 2) if known(a) else a
        if name in ("dot", "inner", "outer", "matmul", "multiply") and isinstance(f, ast.Attribute):
            if len(argv) == 1:
                return self.mul(self.e(f.value), argv[0])
            if len(argv) == 2:
                return self.mul(argv[0], argv[1])
        if name == "divide" and len(argv) == 2:
            return self.mul(argv[0], argv[1], div=True)
        if name in ("sum", "mean", "max", "min", "cumsum", "prod") and isinstance(f, ast.Attribute) and not argv and dotted(f.value) not in ("np", "numpy", "math"):
            return self.flat(self.e(f.value))
        if name in JOIN_ARGS:
            r = ZERO
            for a in argv[: 3 if name != "where" else 3]:
                if name == "where" and a is argv[0]:
                    continue
                r = self.same(r, a, n, name) if name in ("min", "max", "maximum", "minimum") else self.merge(r, a)
            return r
        if name in ("sorted", "list", "reversed", "tuple", "iter") and argv and isinstance(argv[0], tuple):
            return argv[0]  # a sequence of pairs stays a sequence of pairs
        if name in PURE_LIFT:
            if isinstance(f, ast.Attribute) and not argv and dotted(f.value) not in ("np", "numpy", "math", "copy"):
                return self.flat(self.e(f.value))
            return self.flat(argv[0]) if argv else TOP
        if name in ("get", "pop") and isinstance(f, ast.Attribute):
            base = self.flat(self.e(f.value))
            dflt = argv[1] if len(argv) > 1 else ZERO
            return self.merge(base, dflt)
        if name == "items" and isinstance(f, ast.Attribute):
            return (TOP, self.flat(self.e(f.value)))
        if name == "keys":
            return TOP
        if name == "zip":
            if len(n.args) == 1 and isinstance(n.args[0], ast.Starred) and isinstance(argv[0], tuple):
                return argv[0]  # zip(*pairs): per-position units
            return tuple(self.flat(a) for a in argv)
        if name == "enumerate":
            return (ONE, argv[0] if argv else TOP)
        if name == "dict":
            if argv and isinstance(argv[0], tuple) and len(argv[0]) == 2:
                return self.flat(argv[0][1])
            return self.flat(argv[0]) if argv else ZERO
        if name in DIMLESS_FUNCS:
            return ONE
        if name in ZERO_FUNCS:
            return ZERO
        if name in ("repeat", "full", "tile", "reshape", "resize", "clip"):
            if isinstance(f, ast.Attribute) and dotted(f.value) not in ("np", "numpy"):
                return self.flat(self.e(f.value))
            return self.flat(argv[1] if name == "full" and len(argv) > 1 else (argv[0] if argv else TOP))
        return TOP

    # ------------------------------------------------------------------ binding
    def bind(self, t, v):
        if isinstance(t, ast.Name):
            self.env[t.id] = v if not isinstance(v, tuple) else v
        elif isinstance(t, (ast.Tuple, ast.List)):
            if isinstance(v, tuple) and len(v) == len(t.elts):
                for x, y in zip(t.elts, v):
                    self.bind(x, y)
            else:
                for x in t.elts:
                    self.bind(x, self.flat(v))
        elif isinstance(t, ast.Subscript):
            base = t.value
            while isinstance(base, ast.Subscript):
                base = base.value
            d = dotted(base)
            if d is not None:
                self.env[d] = self.merge(self.env.get(d, ZERO), v)
        elif isinstance(t, ast.Attribute):
            d = dotted(t)
            if d is not None:
                self.env[d] = v
        elif isinstance(t, ast.Starred):
            self.bind(t.value, v)

    def bind_iter(self, target, it):
        v = self.e(it)
        if isinstance(v, tuple) and isinstance(it, ast.Call) and (getattr(it.func, "id", None) in ("zip", "enumerate") or getattr(it.func, "attr", None) in ("items",)):
            self.bind(target, v)
        else:
            self.bind(target, self.flat(v) if not isinstance(target, (ast.Tuple, ast.List)) else v)

    # ------------------------------------------------------------------ statements
    def run(self, body):
        for st in body:
            self.stmt(st)
        return self

    def stmt(self, st):
        if isinstance(st, ast.Assign):
            v = self.e(st.value)
            for t in st.targets:
                self.bind(t, v)
        elif isinstance(st, ast.AnnAssign):
            if st.value is not None:
                self.bind(st.target, self.e(st.value))
        elif isinstance(st, ast.AugAssign):
            tb = st.target
            while isinstance(tb, ast.Subscript):
                tb = tb.value
            d = dotted(tb)
            cur = self.e(st.target)
            v = self.e(st.value)
            if isinstance(st.op, (ast.Add, ast.Sub)):
                new = self.same(cur, v, st, "+=")
            elif isinstance(st.op, ast.Mult):
                new = self.mul(cur, v) if self.flat(cur) != ZERO else ZERO
            elif isinstance(st.op, (ast.Div, ast.FloorDiv)):
                new = self.mul(cur, v, div=True)
            else:
                new = TOP
            if d is not None:
                self.env[d] = new
        elif isinstance(st, ast.Return):
            if st.value is not None:
                self.returns.append((st, self.e(st.value)))
        elif isinstance(st, ast.Expr):
            v = st.value
            if isinstance(v, (ast.Yield, ast.YieldFrom)):
                if v.value is not None:
                    self.yields.append((st, self.e(v.value)))
                return
            if isinstance(v, ast.Call) and isinstance(v.func, ast.Attribute) and v.func.attr in ("append", "extend", "add", "update", "insert") and v.args:
                d = dotted(v.func.value)
                val = self.e(v.args[-1])
                if d is not None:
                    self.env[d] = self.merge(self.env.get(d, ZERO), val)
                if v.func.attr in self.sink_names:
                    self.sinks.append((v, [self.e(a) for a in v.args], {}))
                return
            self.e(v)
        elif isinstance(st, (ast.For, ast.AsyncFor)):
            self.bind_iter(st.target, st.iter)
            self.run(st.body)
            self.run(st.orelse)
        elif isinstance(st, ast.While):
            self.e(st.test)
            self.run(st.body)
            self.run(st.orelse)
        elif isinstance(st, ast.If):
            self.e(st.test)
            before = dict(self.env)
            self.run(st.body)
            a = self.env
            self.env = dict(before)
            self.run(st.orelse)
            b = self.env
            zb = _zero_branch(st.test)
            if zb == "body" and st.orelse:
                self.env = b
                return
            if zb == "orelse" and st.orelse:
                self.env = a
                return
            out = {}
            for k in set(a) | set(b):
                if k in a and k in b:
                    out[k] = a[k] if (a[k] == b[k]) else self.merge(a[k], b[k])
                else:
                    out[k] = a.get(k, b.get(k))
            self.env = out
        elif isinstance(st, (ast.With, ast.AsyncWith)):
            for it in st.items:
                v = self.e(it.context_expr)
                if it.optional_vars is not None:
                    self.bind(it.optional_vars, v)
            self.run(st.body)
        elif isinstance(st, ast.Try):
            self.run(st.body)
            for h in st.handlers:
                self.run(h.body)
            self.run(st.orelse)
            self.run(st.finalbody)
        elif isinstance(st, ast.Assert):
            self.e(st.test)
        elif isinstance(st, ast.Raise):
            pass
        elif isinstance(st, ast.Delete):
            pass


def _zero_branch(test):
    """Which branch of `if test:` is the degenerate one where a quantity is exactly zero (all results there are
    zeros whatever their unit): 'body' for `x == 0` / `not x`, 'orelse' for `x != 0` / `x`; None otherwise."""
    if isinstance(test, ast.Compare) and len(test.ops) == 1 and isinstance(test.comparators[0], ast.Constant) and test.comparators[0].value in (0, 0.0) \
            and isinstance(test.left, (ast.Name, ast.Attribute)):
        if isinstance(test.ops[0], ast.Eq):
            return "body"
        if isinstance(test.ops[0], ast.NotEq):
            return "orelse"
    return None


def analyze(fnode, law: Law, env=None, sink_names=()):
    ev = Evaluator(law, env)
    ev.sink_names = set(sink_names)
    body = [s for s in fnode.body if not (isinstance(s, ast.Expr) and isinstance(s.value, ast.Constant) and isinstance(s.value.value, str))]
    ev.run(body)
    return ev
