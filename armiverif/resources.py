"""E7 - tolerant readers of the data files anchored by C19 (no third-party YAML, nothing imported
from /repo's environment): nuclides.dat, elements.dat, burn-chain.yaml, mcc-nuclides.yaml."""
from __future__ import annotations

import re
from typing import Dict, List, Tuple

from .index import AnalysisError, Index


def data_lines(text: str):
    for n, line in enumerate(text.splitlines(), 1):
        s = line.split("#", 1)[0].rstrip() if not line.lstrip().startswith("#") else ""
        if s.strip():
            yield n, s


def read_nuclides(idx: Index):
    """rows: dict(line, z, n, a, s, sym, mass, abund, halflife)"""
    rows = []
    for ln, s in data_lines(idx.read("armi/resources/nuclides.dat")):
        parts = s.split()
        if parts[0] == "Z":
            continue
        if len(parts) != 9:
            raise AnalysisError(f"nuclides.dat:{ln}: {len(parts)} columns")
        z, n, a, st = (int(x) for x in parts[:4])
        rows.append(dict(line=ln, z=z, n=n, a=a, s=st, sym=parts[4], mass=float(parts[5]), abund=float(parts[6]), halflife=parts[7], nusf=float(parts[8])))
    if len(rows) < 1000:
        raise AnalysisError("nuclides.dat: too few rows parsed")
    return rows


def read_elements(idx: Index):
    out = []
    for ln, s in data_lines(idx.read("armi/resources/elements.dat")):
        parts = s.split()
        if parts[0] == "Z":
            continue
        out.append(dict(line=ln, z=int(parts[0]), sym=parts[1], name=parts[2]))
    if len(out) < 100:
        raise AnalysisError("elements.dat: too few rows parsed")
    return out


def read_mcc(idx: Index):
    """{name: {column: id or None}} with line numbers."""
    out: Dict[str, Dict[str, object]] = {}
    cur = None
    for ln, s in data_lines(idx.read("armi/resources/mcc-nuclides.yaml")):
        if not s.startswith(" "):
            m = re.fullmatch(r"([A-Za-z0-9]+):", s.strip())
            if not m:
                raise AnalysisError(f"mcc-nuclides.yaml:{ln}: `{s}` not understood")
            cur = m.group(1)
            if cur in out:
                raise AnalysisError(f"mcc-nuclides.yaml:{ln}: duplicate key {cur}")
            out[cur] = {"__line__": ln}
        else:
            m = re.fullmatch(r"\s+([^:]+):\s*(\S.*?)\s*", s)
            if not m or cur is None:
                raise AnalysisError(f"mcc-nuclides.yaml:{ln}: `{s}` not understood")
            v = m.group(2)
            out[cur][m.group(1)] = None if v in ("null", "~") else v.strip("'\"")
    return out


def read_burn_chain(idx: Index):
    """[(nuclide, line, kind, dict(branch, products, type, ...))]"""
    entries = []
    cur = None
    item = None
    in_products = False
    seen = set()
    for ln, s in data_lines(idx.read("armi/resources/burn-chain.yaml")):
        if not s.startswith(" "):
            m = re.fullmatch(r"([A-Za-z0-9]+):\s*(\[\s*\])?", s.strip())
            if not m:
                raise AnalysisError(f"burn-chain.yaml:{ln}: `{s}` not understood")
            cur = m.group(1)
            if m.group(2):
                entries.append((cur, ln, "empty", {"line": ln, "products": []}))
            if cur in seen:
                raise AnalysisError(f"burn-chain.yaml:{ln}: duplicate key {cur}")
            seen.add(cur)
            item = None
            continue
        t = s.strip()
        m = re.fullmatch(r"-\s+(\w+):\s*(\S.*)?", t)
        indent = len(s) - len(s.lstrip())
        if m and indent <= 2:
            item = {"line": ln, "products": []}
            entries.append((cur, ln, m.group(1), item))
            if m.group(2):
                item["value"] = m.group(2)
            in_products = False
            continue
        if item is None:
            raise AnalysisError(f"burn-chain.yaml:{ln}: `{s}` outside an entry")
        if t == "products:":
            in_products = True
            continue
        m = re.fullmatch(r"-\s+(\S+)", t)
        if m and in_products:
            item["products"].append(m.group(1))
            continue
        m = re.fullmatch(r"(\w+):\s*(\S+)", t)
        if m:
            in_products = False
            item[m.group(1)] = m.group(2)
            continue
        raise AnalysisError(f"burn-chain.yaml:{ln}: `{s}` not understood")
    if len(entries) < 100:
        raise AnalysisError("burn-chain.yaml: too few entries parsed")
    return entries
