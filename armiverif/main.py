"""Launcher: ./check <ID> [--thorough] [--replay file] [--root tree] [--rule R]"""
from __future__ import annotations

import argparse
import importlib
import json
import os
import sys
import traceback


def run_property(prop_id: str, root="/repo", tier="quick", overlay=None, only_rule=None, write=True, quiet=False):
    """Run all rules of a property on a tree; returns (exit_code, Check)."""
    from .index import load_index, AnalysisError
    from .report import Check

    chk = Check(prop_id, tier, only_rule)
    try:
        idx = load_index(root, overlay)
        mod = importlib.import_module(f"armiverif.props.{prop_id.lower()}")
        mod.run(idx, chk)
    except AnalysisError as e:
        r = chk.rule("setup", "index / anchors", floor=0)
        r.error(f"{type(e).__name__}: {e}")
    code = chk.finish(write=write, quiet=quiet)
    return code, chk


def main(argv=None):
    import signal

    try:
        signal.signal(signal.SIGPIPE, signal.SIG_DFL)
    except Exception:
        pass
    ap = argparse.ArgumentParser()
    ap.add_argument("prop")
    ap.add_argument("--thorough", action="store_true")
    ap.add_argument("--replay")
    ap.add_argument("--root", default=os.environ.get("ARMIVERIF_ROOT", "/repo"))
    ap.add_argument("--rule")
    a = ap.parse_args(argv)
    tier = "thorough" if (a.thorough or os.environ.get("VERIF_TIER") == "thorough") else "quick"
    only = a.rule
    if a.replay:
        with open(a.replay) as f:
            only = json.load(f)["rule"]
    try:
        code, chk = run_property(a.prop, a.root, tier, only_rule=only, write=not a.replay)
        if tier == "thorough" and code == 0 and not a.replay:
            from . import selftest

            st_code = selftest.run(a.prop, a.root, chk)
            code = code or st_code
        return code
    except SystemExit:
        raise
    except BaseException:  # a crash of the checker is never a verdict about armi
        print(f"ANALYSIS-ERROR property={a.prop} checker crashed:")
        traceback.print_exc(file=sys.stdout)
        return 2


if __name__ == "__main__":
    sys.exit(main())
