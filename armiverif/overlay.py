"""Build an in-memory overlay {relpath: text} from a unified diff, without touching /repo.

The affected files are copied to a scratch directory outside /repo and /verif, `patch` is run
there, the results are read back and the scratch directory is removed.
"""
from __future__ import annotations

import os
import re
import shutil
import subprocess
import tempfile
from typing import Dict


def files_in_patch(text: str):
    out = []
    for m in re.finditer(r"^\+\+\+ (?:b/)?(\S+)", text, re.M):
        f = m.group(1)
        if f != "/dev/null" and f not in out:
            out.append(f)
    for m in re.finditer(r"^--- (?:a/)?(\S+)", text, re.M):
        f = m.group(1)
        if f != "/dev/null" and f not in out:
            out.append(f)
    return out


def overlay_from_patch(patchfile: str, reverse=False, root="/repo") -> Dict[str, str]:
    text = open(patchfile).read()
    files = files_in_patch(text)
    tmp = tempfile.mkdtemp(prefix="armiverif-ov-")
    try:
        for f in files:
            src = os.path.join(root, f)
            dst = os.path.join(tmp, f)
            os.makedirs(os.path.dirname(dst), exist_ok=True)
            if os.path.exists(src):
                shutil.copy(src, dst)
        cmd = ["patch", "-p1", "-s", "-f", "--no-backup-if-mismatch"] + (["-R"] if reverse else []) + ["-i", os.path.abspath(patchfile)]
        p = subprocess.run(cmd, cwd=tmp, capture_output=True, text=True)
        if p.returncode != 0:
            raise RuntimeError(f"patch failed for {patchfile}: {p.stdout} {p.stderr}")
        ov = {}
        for f in files:
            dst = os.path.join(tmp, f)
            if os.path.exists(dst):
                ov[f] = open(dst, encoding="utf-8", errors="replace").read()
        return ov
    finally:
        shutil.rmtree(tmp, ignore_errors=True)
