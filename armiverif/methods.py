"""Method-existence lint (who-can-answer-this-call): a camelCase method invoked on a value that armi code
produced must be defined somewhere - in armi (def / class / attribute store / string used with setattr),
or on a Python builtin / stdlib type.  Name-based (no type checker on this image), therefore restricted
to receivers with armi provenance so that third-party objects (numpy, h5py, scipy, wx ...) are never
judged: the receiver is `self`, or a local whose every reaching definition is a call of a method/function
that armi defines, or an attribute chain ending in such a call."""
from __future__ import annotations

import ast
import collections
import io
import logging
import re
import threading
import unittest

from .astutil import iter_calls, walk_local
from .index import norm

_CAMEL = re.compile(r"^_{0,2}[a-z]+[a-z0-9]*[A-Z]\w*$")


def _stdlib_names():
    out = set()
    for t in (list, dict, str, set, frozenset, tuple, int, float, bytes, bytearray, object, complex, type, BaseException, collections.OrderedDict,
              collections.defaultdict, collections.deque, collections.Counter, io.StringIO, io.BytesIO, range, slice, memoryview, logging.Logger,
              logging.Handler, logging.StreamHandler, logging.FileHandler, logging.Formatter, logging.Filter, logging.LoggerAdapter, threading.Thread,
              threading.Event, unittest.TestCase):
        out |= set(dir(t))
    return out


_STD = None


def defined_names(idx):
    """Every identifier armi binds anywhere: defs, classes, attribute/name stores, parameters, import aliases and
    identifier-shaped string constants (setattr / getattr / __dict__ keys / parameter definitions)."""
    cached = getattr(idx, "_defined_names", None)
    if cached is not None:
        return cached
    names = set()
    for m in idx.modules.values():
        for n in ast.walk(m.tree):
            if isinstance(n, (ast.FunctionDef, ast.AsyncFunctionDef, ast.ClassDef)):
                names.add(n.name)
            elif isinstance(n, ast.Attribute) and isinstance(n.ctx, ast.Store):
                names.add(n.attr)
            elif isinstance(n, ast.Name) and isinstance(n.ctx, ast.Store):
                names.add(n.id)
            elif isinstance(n, ast.arg):
                names.add(n.arg)
            elif isinstance(n, ast.alias):
                names.add((n.asname or n.name).split(".")[-1])
            elif isinstance(n, ast.Constant) and isinstance(n.value, str) and n.value.isidentifier():
                names.add(n.value)
    idx._defined_names = names
    return names


def armi_callables(idx):
    cached = getattr(idx, "_armi_callables", None)
    if cached is not None:
        return cached
    names = set()
    for m in idx.modules.values():
        for n in ast.walk(m.tree):
            if isinstance(n, (ast.FunctionDef, ast.AsyncFunctionDef, ast.ClassDef)):
                names.add(n.name)
    idx._armi_callables = names
    return names


def _armi_value(expr, f, defs, visiting=frozenset()):
    """True when `expr` is known to be produced by armi code (greatest fixpoint over re-assigned locals:
    `x = a.getFoo(); x = x.duplicate()` is armi-produced when both right-hand sides are)."""
    calls = armi_callables_cache[0]
    if isinstance(expr, ast.Name):
        if expr.id == "self":
            return True
        if expr.id in visiting:
            return True
        ds = defs.get(expr.id)
        if not ds or len(visiting) > 6:
            return False
        return all(_armi_value(d, f, defs, visiting | {expr.id}) for d in ds)
    if isinstance(expr, ast.Call):
        fn = expr.func
        if isinstance(fn, ast.Attribute):
            return fn.attr in calls and fn.attr not in _STD and _armi_value(fn.value, f, defs, visiting)
        return False
    return False


armi_callables_cache = [set()]


def check_functions(idx, funcs):
    """yield (func, call, verdict, why) for every camelCase method call with an armi-produced receiver.
    verdict True = some definition exists, False = none."""
    global _STD
    if _STD is None:
        _STD = _stdlib_names()
    names = defined_names(idx)
    armi_callables_cache[0] = armi_callables(idx)
    for f in funcs:
        defs = {}
        params = set(f.params()) if hasattr(f, "params") else set()
        for n in walk_local(f.node):
            if isinstance(n, ast.Assign):
                for t in n.targets:
                    if isinstance(t, ast.Name):
                        defs.setdefault(t.id, []).append(n.value)
                    else:
                        for sub in ast.walk(t):
                            if isinstance(sub, ast.Name) and isinstance(sub.ctx, ast.Store):
                                defs.setdefault(sub.id, []).append(ast.Constant(value=None))  # unpacking: unknown
            elif isinstance(n, (ast.AugAssign, ast.AnnAssign)) and isinstance(n.target, ast.Name):
                defs.setdefault(n.target.id, []).append(ast.Constant(value=None))
            elif isinstance(n, (ast.For, ast.comprehension)):
                for sub in ast.walk(n.target):
                    if isinstance(sub, ast.Name):
                        defs.setdefault(sub.id, []).append(ast.Constant(value=None))
            elif isinstance(n, ast.withitem) and n.optional_vars is not None:
                for sub in ast.walk(n.optional_vars):
                    if isinstance(sub, ast.Name):
                        defs.setdefault(sub.id, []).append(ast.Constant(value=None))
        for p in params:
            if p != "self":
                defs.setdefault(p, []).append(ast.Constant(value=None))
        for c in iter_calls(f.node):
            if not isinstance(c.func, ast.Attribute):
                continue
            a = c.func.attr
            if not _CAMEL.match(a):
                continue
            if not _armi_value(c.func.value, f, defs):
                continue
            ok = a in names or a in _STD
            yield f, c, ok, norm(c.func)[:80]
