import ast, sys
sys.path.insert(0, __import__('os').path.dirname(__file__))
from q3 import *
src = open('/repo/armi/reactor/grids/hexagonal.py').read()
tree = ast.parse(src)
cls = [n for n in tree.body if isinstance(n, ast.ClassDef) and n.name=='HexGrid'][0]
def fn(name): return [m for m in cls.body if isinstance(m, ast.FunctionDef) and m.name==name][0]
def ev(node, env):
    if isinstance(node, ast.Constant): return p(node.value) if not isinstance(node.value,float) else p(F(str(node.value)))
    if isinstance(node, ast.Name): return env[node.id]
    if isinstance(node, ast.BinOp):
        l,r = ev(node.left,env), ev(node.right,env)
        return {ast.Add:lambda:l+r, ast.Sub:lambda:l-r, ast.Mult:lambda:l*r, ast.Div:lambda:l/r}[type(node.op)]()
    if isinstance(node, ast.UnaryOp) and isinstance(node.op, ast.USub): return -ev(node.operand,env)
    if isinstance(node, ast.UnaryOp) and isinstance(node.op, ast.UAdd): return ev(node.operand,env)
    if isinstance(node, ast.Tuple): return tuple(ev(e,env) for e in node.elts)
    if isinstance(node, ast.Call) and ast.unparse(node.func)=='hexagon.side':
        return ev(node.args[0],env)/p(SQRT3)
    raise NotImplementedError(ast.dump(node))
# unit steps
f = fn('_getRawUnitSteps')
env={'pitch':Poly.atom('pitch')}
U={}
for st in f.body:
    if isinstance(st, ast.Assign): env[st.targets[0].id]=ev(st.value,env)
    if isinstance(st, ast.If):
        U[True]=ev(st.body[0].value, dict(env)); U[False]=ev(st.orelse[0].value, dict(env))
def mat(u): return [[u[0][0],u[0][1]],[u[1][0],u[1][1]]]
def mv(M,v): return [M[0][0]*v[0]+M[0][1]*v[1], M[1][0]*v[0]+M[1][1]*v[1]]
half=Q3(F(1,2)); s32=Q3(0,F(1,2))
def R(k):
    c=[Q3(1),half,-half,Q3(-1),-half,half][k%6]; s=[Q3(0),s32,s32,Q3(0),-s32,-s32][k%6]
    return [[p(c),p(-s)],[p(s),p(c)]]
nb = fn('getNeighboringCellIndices')
ret=[s for s in nb.body if isinstance(s, ast.Return)][0]
offs = ev_off = [ (ev(t.elts[0],{'i':p(0),'j':p(0),'k':p(0)}), ev(t.elts[1],{'i':p(0),'j':p(0),'k':p(0)})) for t in ret.value.elts]
ok=True
for cu,u in U.items():
    M=mat(u); vecs=[mv(M,list(o)) for o in offs]
    for k in range(6):
        rot=mv(R(1),vecs[k]); nxt=vecs[(k+1)%6]
        good = rot[0]==nxt[0] and rot[1]==nxt[1]
        n2 = vecs[k][0]*vecs[k][0]+vecs[k][1]*vecs[k][1]
        good2 = n2==Poly.atom('pitch')*Poly.atom('pitch')
        ok &= good and good2
    print('cornersUp',cu,'neighbors CCW 60deg & |v|=pitch:', ok)
# symmetric identicals
f=fn('_getSymmetricIdenticalsThird')
asg=[s for s in f.body if isinstance(s, ast.Assign) and getattr(s.targets[0],'id','')=='identicals'][0]
I,J=Poly.atom('i'),Poly.atom('j')
maps=[ev(t,{'i':I,'j':J}) for t in asg.value.elts]
for cu,u in U.items():
    M=mat(u)
    for n,(mi,mj) in enumerate(maps,1):
        lhs=mv(M,[mi,mj]); rhs=mv(R(2*n), mv(M,[I,J]))
        print('cornersUp',cu,'identical',n,'= rotation by',120*n, lhs[0]==rhs[0] and lhs[1]==rhs[1])
