"""Feasibility prototype of E4: unit/role inference over a function body."""
import ast, sys
from fractions import Fraction as F
class U:
    def __init__(s,d=None): s.d={k:F(v) for k,v in (d or {}).items() if v}
    def __mul__(s,o):
        d=dict(s.d)
        for k,v in o.d.items(): d[k]=d.get(k,0)+v
        return U(d)
    def __truediv__(s,o): return s*o**-1
    def __pow__(s,e): return U({k:v*F(e) for k,v in s.d.items()})
    def __eq__(s,o): return isinstance(o,U) and s.d==o.d
    def __hash__(s): return hash(tuple(sorted(s.d.items())))
    def __repr__(s): return "·".join(f"{k}^{v}" if v!=1 else k for k,v in sorted(s.d.items())) or "1"
ONE=U()
TOP='⊤'; ZERO='0'
class Conflict(Exception): pass
def parse(s):
    d={}
    for tok in s.split():
        if '^' in tok: k,e=tok.split('^'); d[k]=F(e)
        else: d[tok]=1
    return U(d)
N=parse('atom b^-1 cm^-1')
METHODS={'getVolume':parse('cm^3'),'getArea':parse('cm^2'),'getHeight':parse('cm'),'getSymmetryFactor':ONE,
 'getWeight':parse('W cm^3'),'getMass':parse('g')}
DICTMETH={'getNumberDensities':N}
LISTMETH={'getNuclideNumberDensities':N}
class Ev:
    def __init__(s, env, dims=None): s.env=env; s.conf=[]; s.dims=dims or {}
    def join(s,a,b,node):
        if a==ZERO: return b
        if b==ZERO: return a
        if a==TOP or b==TOP: return TOP
        if a!=b:
            s.conf.append((node.lineno, ast.unparse(node)[:70], a, b)); return TOP
        return a
    def e(s,n):
        if isinstance(n, ast.Constant):
            return ZERO if n.value in (0,0.0) else (ONE if isinstance(n.value,(int,float)) else TOP)
        if isinstance(n, ast.Name): return s.env.get(n.id, TOP)
        if isinstance(n, ast.BinOp):
            a,b=s.e(n.left),s.e(n.right)
            if isinstance(n.op,(ast.Add,ast.Sub)): return s.join(a,b,n)
            if isinstance(n.op, ast.Pow):
                if a in (TOP,ZERO): return a
                if isinstance(n.right, ast.Constant): return a**n.right.value
                return TOP
            if a==ZERO and isinstance(n.op,(ast.Mult,ast.Div)): return ZERO
            if TOP in (a,b): return TOP
            if b==ZERO: return ZERO
            return a*b if isinstance(n.op, ast.Mult) else a/b
        if isinstance(n, ast.UnaryOp): return s.e(n.operand)
        if isinstance(n, ast.IfExp): return s.join(s.e(n.body), s.e(n.orelse), n)
        if isinstance(n, ast.BoolOp):  # x or 1.0
            r=s.e(n.values[0])
            for v in n.values[1:]:
                w=s.e(v)
                if w==ONE and r not in (TOP,ZERO): continue  # 'or 1.0' default idiom
                r=s.join(r,w,n)
            return r
        if isinstance(n, ast.Attribute):
            if ast.unparse(n) in ('math.pi',): return ONE
            return s.env.get(ast.unparse(n), TOP)
        if isinstance(n, (ast.ListComp, ast.GeneratorExp)):
            sub=Ev(dict(s.env), s.dims); sub.conf=s.conf
            for g in n.generators:
                it=s.e(g.iter)
                sub.bind(g.target, it)
            return sub.e(n.elt)
        if isinstance(n, ast.Subscript): return s.e(n.value)
        if isinstance(n, (ast.List, ast.Tuple)):
            r=ZERO
            for x in n.elts: r=s.join(r,s.e(x),n)
            return r
        if isinstance(n, ast.Call):
            f=n.func
            name = f.attr if isinstance(f, ast.Attribute) else getattr(f,'id',None)
            if name=='getDimension' and n.args and isinstance(n.args[0], ast.Constant):
                return parse('L') if n.args[0].value in s.dims else ONE
            if name in METHODS: return METHODS[name]
            if name in DICTMETH or name in LISTMETH: return (DICTMETH|LISTMETH)[name]
            if name in ('array','sum','abs','min','max','float','list','tuple','zip','sorted','mean','asarray','reversed'):
                r=ZERO
                for a in n.args: r=s.join(r,s.e(a),n)
                if isinstance(f, ast.Attribute) and name in ('sum','mean') and not n.args: return s.e(f.value)
                return r
            if name=='sqrt': 
                a=s.e(n.args[0]); return a if a in (TOP,ZERO) else a**F(1,2)
            if name=='dot':
                a,b=s.e(f.value),s.e(n.args[0]); return TOP if TOP in (a,b) else (ZERO if ZERO in (a,b) else a*b)
            if name=='get' and isinstance(f, ast.Attribute):
                return s.join(s.e(f.value), s.e(n.args[1]) if len(n.args)>1 else ZERO, n)
            return TOP
        return TOP
    def bind(s,t,u):
        if isinstance(t, ast.Name): s.env[t.id]=u
        elif isinstance(t,(ast.Tuple,ast.List)):
            for x in t.elts: s.bind(x,u)
    def run(s, body):
        rets=[]
        for st in body:
            if isinstance(st, ast.Assign):
                v=s.e(st.value)
                for t in st.targets: s.bind(t,v) if isinstance(t,(ast.Name,ast.Tuple)) else None
            elif isinstance(st, ast.AugAssign) and isinstance(st.target, ast.Name):
                cur=s.env.get(st.target.id,TOP); v=s.e(st.value)
                if isinstance(st.op,(ast.Add,ast.Sub)): s.env[st.target.id]=s.join(cur,v,st)
                elif TOP in (cur,v): s.env[st.target.id]=TOP
                elif ZERO in (cur,v): s.env[st.target.id]=ZERO
                else: s.env[st.target.id]= cur*v if isinstance(st.op, ast.Mult) else cur/v
            elif isinstance(st, ast.Return) and st.value is not None:
                rets.append((st.lineno, s.e(st.value)))
            elif isinstance(st, ast.For):
                s.bind(st.target, s.e(st.iter)); rets+=s.run(st.body)
            elif isinstance(st, ast.If):
                rets+=s.run(st.body); rets+=s.run(st.orelse)
            elif isinstance(st, ast.Expr): s.e(st.value)
        return rets
def find(path, cls, fn):
    t=ast.parse(open(path).read())
    for c in ast.walk(t):
        if isinstance(c, ast.ClassDef) and c.name==cls:
            for m in c.body:
                if isinstance(m, ast.FunctionDef) and m.name==fn: return c,m
def ted(c):
    for s_ in c.body:
        if isinstance(s_, ast.Assign) and getattr(s_.targets[0],'id','')=='THERMAL_EXPANSION_DIMS':
            return set(ast.literal_eval(s_.value)) if not isinstance(s_.value, ast.Dict) else set()
    return None
if __name__=='__main__':
    R='/repo/armi/'
    for path,cls,fn,env in [
      (R+'reactor/composites.py','ArmiObject','getNuclideNumberDensities',{}),
      (R+'physics/neutronics/crossSectionGroupManager.py','AverageBlockCollection','_getAverageNumberDensities',{}),
      (R+'physics/neutronics/crossSectionGroupManager.py','AverageBlockCollection','_getAverageComponentTemperature',{}),
      (R+'physics/neutronics/crossSectionGroupManager.py','BlockCollection','_calcWeightedBurnup',{'b.p.massHmBOL':parse('g'),'b.p.percentBu':parse('Bu')}),
    ]:
        c,m=find(path,cls,fn); ev=Ev(dict(env)); r=ev.run(m.body); print(cls,fn,'returns',r,'conflicts',ev.conf)
    import glob
    for path in [R+'reactor/components/basicShapes.py',R+'reactor/components/complexShapes.py']:
        t=ast.parse(open(path).read())
        classes={c.name:c for c in t.body if isinstance(c, ast.ClassDef)}
        for c in classes.values():
            for m in c.body:
                if isinstance(m, ast.FunctionDef) and m.name=='getComponentArea':
                    d=ted(c)
                    b=c
                    while d is None:
                        bn=ast.unparse(b.bases[0]).split('.')[-1]
                        b=classes.get(bn) or ast.parse(open(R+'reactor/components/basicShapes.py').read()) and {x.name:x for x in ast.parse(open(R+'reactor/components/basicShapes.py').read()).body if isinstance(x, ast.ClassDef)}[bn]
                        d=ted(b)
                    ev=Ev({},d); r=ev.run(m.body); print(c.name,'area',r,'conf',ev.conf)
