"""Exact arithmetic in Q(sqrt3) and polynomials over atoms — feasibility prototype."""
from fractions import Fraction as F
class Q3:
    __slots__=('a','b')  # a + b*sqrt3
    def __init__(s,a=0,b=0): s.a=F(a); s.b=F(b)
    def __add__(s,o): o=q(o); return Q3(s.a+o.a,s.b+o.b)
    __radd__=__add__
    def __neg__(s): return Q3(-s.a,-s.b)
    def __sub__(s,o): return s+(-q(o))
    def __rsub__(s,o): return q(o)-s
    def __mul__(s,o): o=q(o); return Q3(s.a*o.a+3*s.b*o.b, s.a*o.b+s.b*o.a)
    __rmul__=__mul__
    def inv(s):
        d=s.a*s.a-3*s.b*s.b; return Q3(s.a/d,-s.b/d)
    def __truediv__(s,o): return s*q(o).inv()
    def __rtruediv__(s,o): return q(o)*s.inv()
    def __eq__(s,o): o=q(o); return s.a==o.a and s.b==o.b
    def __hash__(s): return hash((s.a,s.b))
    def iszero(s): return s.a==0 and s.b==0
    def __repr__(s): return f"({s.a}+{s.b}r3)" if s.b else f"{s.a}"
def q(x): return x if isinstance(x,Q3) else Q3(x)
SQRT3=Q3(0,1)
class Poly:
    """sparse polynomial: dict monomial(tuple of (atom,exp)) -> Q3"""
    def __init__(s,t=None): s.t={k:v for k,v in (t or {}).items() if not v.iszero()}
    @staticmethod
    def const(c): return Poly({():q(c)})
    @staticmethod
    def atom(n): return Poly({((n,1),):Q3(1)})
    def __add__(s,o):
        o=p(o); t=dict(s.t)
        for k,v in o.t.items(): t[k]=t.get(k,Q3(0))+v
        return Poly(t)
    __radd__=__add__
    def __neg__(s): return Poly({k:-v for k,v in s.t.items()})
    def __sub__(s,o): return s+(-p(o))
    def __rsub__(s,o): return p(o)-s
    def __mul__(s,o):
        o=p(o); t={}
        for k1,v1 in s.t.items():
            for k2,v2 in o.t.items():
                d=dict(k1)
                for a,e in k2: d[a]=d.get(a,0)+e
                k=tuple(sorted((a,e) for a,e in d.items() if e))
                t[k]=t.get(k,Q3(0))+v1*v2
        return Poly(t)
    __rmul__=__mul__
    def __truediv__(s,o):
        o=p(o)
        assert len(o.t)==1, "division only by monomials in prototype"
        (k,v),=o.t.items()
        return s*Poly({tuple((a,-e) for a,e in k): v.inv()})
    def __eq__(s,o): return (s-p(o)).t=={}
    def __repr__(s): return " + ".join(f"{v}*{k}" for k,v in s.t.items()) or "0"
    def coeff(s,atom):
        """coefficient poly of atom^1 (linear extraction)"""
        t={}
        for k,v in s.t.items():
            d=dict(k)
            if d.get(atom,0)==1:
                d.pop(atom); t[tuple(sorted(d.items()))]=v
        return Poly(t)
def p(x): return x if isinstance(x,Poly) else Poly.const(x)
