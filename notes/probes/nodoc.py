import ast, sys
src = open(sys.argv[1]).read()
tree = ast.parse(src)
for node in ast.walk(tree):
    if isinstance(node, (ast.FunctionDef, ast.ClassDef, ast.AsyncFunctionDef, ast.Module)):
        b = node.body
        if b and isinstance(b[0], ast.Expr) and isinstance(getattr(b[0], 'value', None), ast.Constant) and isinstance(b[0].value.value, str):
            if len(b) > 1:
                node.body = b[1:]
            else:
                node.body = [ast.Pass()]
print(ast.unparse(tree))
