import ast, glob, os
classes = {}  # name -> (file, bases, methods)
for f in glob.glob('armi/**/*.py', recursive=True):
    if '/tests/' in f: continue
    try: tree = ast.parse(open(f).read())
    except Exception as e: print('ERR', f, e); continue
    for n in ast.walk(tree):
        if isinstance(n, ast.ClassDef):
            bases = [ast.unparse(b).split('.')[-1] for b in n.bases]
            methods = {m.name: m for m in n.body if isinstance(m, ast.FunctionDef)}
            classes.setdefault(n.name, []).append((f, bases, methods))
def isComposite(name, seen=()):
    if name in ('Composite','ArmiObject'): return True
    if name in seen: return False
    for (f,bases,m) in classes.get(name, []):
        for b in bases:
            if isComposite(b, seen+(name,)): return True
    return False
MUT = ['add','insert','remove','removeAll','setChildren','append','extend','sort','__getstate__','__setstate__','__deepcopy__','__iter__','__contains__','backUp','restoreBackup','moveTo','iterChildren','getChildren','iterComponents','_iterChildren']
for name, defs in sorted(classes.items()):
    if not isComposite(name) or name in ('Composite','ArmiObject'): continue
    for (f,bases,methods) in defs:
        for m in MUT:
            if m in methods:
                src = ast.unparse(methods[m])
                calls_base = ('Composite.%s(' % m in src) or ('super().%s(' % m in src) or any(('%s.%s(self' % (b, m)) in src for b in bases) or ('ArmiObject.%s('%m in src)
                print(f'{name:28s} {m:16s} {os.path.basename(f):24s} calls_base={calls_base}')
