import ast, sys, glob
RW = {'rwInt','rwBool','rwLong','rwFloat','rwDouble','rwString','rwList','rwMatrix','rwDoubleMatrix','rwIntMatrix','rwImplicitlyTypedMap'}
tot=0; ok=0
for f in sorted(glob.glob('armi/nuclearDataIO/cccc/*.py')):
    if f.endswith('cccc.py'): continue
    tree = ast.parse(open(f).read())
    parents={}
    for n in ast.walk(tree):
        for c in ast.iter_child_nodes(n): parents[c]=n
    for n in ast.walk(tree):
        if isinstance(n, ast.Call) and isinstance(n.func, ast.Attribute) and n.func.attr in RW:
            tot+=1
            p = parents[n]
            if isinstance(p, ast.Assign) and len(p.targets)==1 and n.args and ast.dump(p.targets[0]).replace('Store','Load')==ast.dump(n.args[0]):
                ok+=1
            else:
                print(f, n.lineno, ast.unparse(p)[:160].replace('\n',' '))
print(tot, ok)
